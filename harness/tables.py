"""Export of sensor/setting tables from the live classes (never copied into a specification)."""
from __future__ import annotations

KNOWN_TYPES = {"Voltage", "Current", "CurrentS", "Frequency", "Power", "PowerS", "Energy", "Apparent", "Reactive", "Temp",
               "CellVoltage", "Integer", "IntegerS", "Decimal", "Enum2", "Byte", "ByteH", "Enum", "EnumH", "ByteL", "EnumL",
               "Power4", "Power4S", "Energy4", "Energy4W", "Apparent4", "Reactive4", "Long", "LongS", "Float", "EnumBitmap4",
               "EnumBitmap22", "Timestamp", "Energy8", "EcoModeV1", "EcoModeV2", "Schedule", "PeakShavingMode",
               "Calculated", "EnumCalculated"}


UNMODELLED: set[str] = set()      # type names seen that Decode.tla gives no meaning to: listed, never judged by value


def labels_of(s) -> list | None:
    lab = getattr(s, "_labels", None)
    if lab is None:
        return None
    return [[int(k), str(v)] for k, v in sorted(lab.items())]


def entry(s) -> dict:
    ty = type(s).__name__
    if ty not in KNOWN_TYPES:
        # a sensor class the specification does not know (added after the specification was written): it takes part in the
        # key / window / read-only clauses, its value is not judged (Decode.tla: "unmodelled"); reported as a note
        UNMODELLED.add(ty)
    return {"id": s.id_, "ty": ty, "addr": int(s.offset), "size": int(s.size_), "scale": int(getattr(s, "scale", 0) or 0),
            "labels": labels_of(s), "addrL": int(getattr(s, "_offsetL", 0) or 0)}


def listing(sensors) -> list[dict]:
    return [entry(s) for s in sensors]


class TableSet:
    """Deduplicates listings and label tables for a batch."""

    def __init__(self):
        self.labels: list = []
        self._li: dict[str, int] = {}
        self.tables: list = []
        self._ti: dict[str, int] = {}

    def lab(self, labels) -> int:
        if not labels:
            return 0
        key = repr(labels)
        if key not in self._li:
            self.labels.append(labels)
            self._li[key] = len(self.labels)
        return self._li[key]

    def tab(self, lst: list[dict]) -> int:
        rows = [{"id": e["id"], "ty": e["ty"], "addr": e["addr"], "scale": e["scale"], "lab": self.lab(e["labels"]),
                 "addrL": e["addrL"], "size": e.get("size", 0)} for e in lst]
        key = repr(rows)
        if key not in self._ti:
            self.tables.append(rows)
            self._ti[key] = len(self.tables)
        return self._ti[key]
