"""API-level parts of C09 (failure counter, only InverterError escapes, odd identification payloads) and C05
(entry points apply the timeout / retries they were given), judged by TraceApi.tla."""
from __future__ import annotations

import itertools
import json
import os
import random
import re
import sys

sys.path.insert(0, os.environ.get("VERIF_REPO", "/repo"))

from . import engine, tlc  # noqa: E402
from .checks_decode import device_regs, es_info  # noqa: E402
from .checks_inverter import serial_for  # noqa: E402
from .engine import Run  # noqa: E402
from .vloop import TICK  # noqa: E402

S_ADDR, F_ADDR, R_ADDR, E_ADDR = 47000, 48000, 49000, 50000


# composite public operations of an ET object (several requests per call): a one-byte setting is written by read-modify-write;
# the read leg answered / silent / refused / failing in the network, a value that does not fit (fails between the legs), a bulk read
COMPOSITE = {"a": {"api": "write_setting", "args": ["eco_mode_1_switch", 1]}, "b": {"api": "write_setting", "args": ["eco_mode_2_switch", 1]},
             "c": {"api": "write_setting", "args": ["eco_mode_3_switch", 1]}, "d": {"api": "write_setting", "args": ["eco_mode_4_switch", 1]},
             "x": {"api": "write_setting", "args": ["eco_mode_1_switch", 300]}, "T": {"api": "read_runtime_data"}}


# the request blocks of the composite calls of an inverter object (call, [first, last register]); ES: the AA55 runtime request
BLOCKS = {"ET": [("read_device_info", [35000, 35040]), ("read_device_info", [47547, 47552]), ("read_device_info", [47589, 47594]),
                 ("read_runtime_data", [35100, 35224]), ("read_runtime_data", [37000, 37023]), ("read_runtime_data", [36000, 36044]),
                 ("read_settings_data", [47510, 47510])],
          "DT": [("read_device_info", [30000, 30050]), ("read_runtime_data", [30100, 30172]), ("read_runtime_data", [30195, 30209])],
          "ES": [("read_runtime_data", None)]}


def hist_program(fam: str, port: int, kinds: str, retries: int) -> dict:
    serial = serial_for("ETU" if fam == "ET" else "DTU")
    sim = {"regs": device_regs(fam, serial, 10000), "silent": [[F_ADDR, F_ADDR + 10]], "refused": [[R_ADDR, R_ADDR + 10]],
           "oserr": [[E_ADDR, E_ADDR + 10]]}
    if fam == "ES":
        sim["aa55"] = {"info": list(es_info("95048ESU000W0000"))}
    calls = []
    if fam == "ET" and any(k in COMPOSITE for k in kinds):
        sim["silent"].append([47522, 47522])
        sim["refused"].append([47526, 47526])
        sim["oserr"].append([47530, 47530])
    for k in kinds:
        if k in COMPOSITE:
            calls.append(dict(COMPOSITE[k]))
            continue
        a = {"S": S_ADDR, "F": F_ADDR, "R": R_ADDR, "E": E_ADDR}[k]
        calls.append({"api": "read_setting", "args": [f"modbus-{a}"]})
    return {"inv": [{"family": fam, "port": port, "sim": sim, "retries": retries, "timeout": 1}], "calls": calls,
            "case": {"case": "hist", "kinds": kinds, "fam": fam, "port": port}}


# ------------------------------------------------------------------------------------------------
# discover() as a machine (spec/Discover.tla): predicted phases and result vs the real ones
# ------------------------------------------------------------------------------------------------
def disc_envs() -> list[dict]:
    out = []
    for tag in ("silent", "ET", "ES", "DT", "other"):
        for once in (False, True):
            for bits in itertools.product((False, True), repeat=5):
                out.append({"tag": tag, "once": once, "info": {"ET": bits[0], "DT": bits[1]},
                            "rt": {"ET": bits[2], "DT": bits[3], "ES": bits[4]}})
    return out


def disc_program(env: dict) -> dict:
    serial = {"ET": serial_for("ETU"), "DT": serial_for("DTU"), "ES": "95048ESU000W0000", "other": "9010KXYZ000W0000"}.get(env["tag"])
    aa = {"mute": True} if env["tag"] == "silent" else {"info": list(es_info(serial)), "info_once": env["once"]}
    if not env["rt"]["ES"]:
        aa["mute_runtime"] = True
    silent = []
    if not env["info"]["ET"]:
        silent.append([35000, 35099])
    if not env["rt"]["ET"]:
        silent.append([35100, 39999])
    if not env["info"]["DT"]:
        silent.append([30001, 30099])
    if not env["rt"]["DT"]:
        silent.append([30100, 30400])
    regs = {}
    regs.update(device_regs("ET", serial_for("ETU"), 10000))
    regs.update(device_regs("DT", serial_for("DTU"), 0))
    sim = {"regs": regs, "silent": silent, "aa55": aa}
    return {"inv": [{"family": None, "sim": sim}], "delay": 0,
            "calls": [{"api": "goodwe.discover", "args": ["inv0"], "kw": {"retries": 0, "timeout": 1}}],
            "case": {"case": "disc", "env": env}}


def _phase_of(req: bytes, first_ident: list) -> str:
    from . import frames as F
    if req[:4] == b"\xaa\x55\xc0\x7f":
        if req[4] == 1 and req[5] == 2:
            if not first_ident[0]:
                first_ident[0] = True
                return "ident"
            return "ES.info"
        return "ES.rt" if (req[4] == 1 and req[5] == 6) else "ES.other"
    p = F.parse_request("rtu", req) or {}
    reg = p.get("reg", 0)
    if 35000 <= reg <= 35099 or 45000 <= reg <= 48999:
        return "ET.info"
    if 35100 <= reg <= 39999:
        return "ET.rt"
    if 30001 <= reg <= 30099 or reg == 0x9CED:
        return "DT.info"
    if 30100 <= reg <= 30400:
        return "DT.rt"
    return f"?{reg}"


def run_disc(prog: dict) -> dict:
    from .inv_driver import run_program
    tr = run_program(prog)
    phases: list[str] = []
    first = [False]
    newcall = False
    ret = {}
    for ev in tr["ev"]:
        if ev["e"] == "XCALL":
            newcall = True
        elif ev["e"] == "SEND" and newcall:
            newcall = False
            ph = _phase_of(bytes(ev["data"]), first)
            # consecutive requests of one phase are one phase; the identification command is a phase of its own every time
            if not phases or phases[-1] != ph or ph in ("ident", "ES.info"):
                phases.append(ph)
        elif ev["e"] == "RET":
            ret = ev
    fam = ""
    if ret.get("ok"):
        m = re.search(r"'family': \{[^}]*'s': '(\w+)'", str(ret.get("val")))
        fam = m.group(1) if m else str(ret.get("val"))[:40]
    c = dict(prog["case"])
    c.update(phases=phases, result=fam if ret.get("ok") else "error", exc=ret.get("exc", ""), fam=bool(ret.get("fam", False)),
             ok=bool(ret.get("ok")), status=tr["status"])
    return c


def compare_discover(run: Run) -> None:
    import re
    envs = disc_envs()
    res = engine.parallel_map("harness.checks_api", "run_disc", [disc_program(e) for e in envs], procs=16, chunk=10)
    path = os.path.join(run.workdir, "disc_envs.json")
    tlc.write_json(path, envs)
    r = tlc.run_tlc("PredictDiscover", env={"VERIF_CFGS": path}, workers=4, timeout=600)
    if not r["ok"]:
        raise engine.MachineryError("PredictDiscover failed\n" + r["stdout"][-2000:])
    pred = {}
    for mm in re.finditer(r'DISC\|(\d+)\|(<<.*?>>)\|(\w+)', r["stdout"].replace('\\"', '"')):
        pred[int(mm.group(1))] = (re.findall(r'"([A-Za-z.]+)"', mm.group(2)), mm.group(3))
    drift = 0
    for k, (env, c) in enumerate(zip(envs, res), 1):
        if c["status"] != "ok":
            raise engine.MachineryError("discover program did not finish")
        want = pred.get(k)
        if want is not None:
            # on the wire two consecutive phases of the same kind (the tagged family's device info failing, then the same
            # family probed first) cannot be told apart from one phase with several requests: compared after merging
            merged = []
            for ph in want[0]:
                if not merged or merged[-1] != ph or ph in ("ident", "ES.info"):
                    merged.append(ph)
            want = (merged, want[1])
        got = (c["phases"], c["result"])
        if want is None or list(want[0]) != got[0] or want[1] != got[1]:
            drift += 1
            if drift <= 4:
                run.notes.append(f"DRIFT: Discover.tla predicts {want} for environment {env}, the code did {got}")
        if not c["ok"] and not c["fam"]:
            run.violation("C09.Family", {"what": "discover:" + json.dumps(env, sort_keys=True), "exc": c["exc"]}, {"apicase": c}) \
                if run.prop == "C09" else None
    os.remove(path)
    run.cov["states"] += r.get("distinct", 0)
    run.cov["discover_environments"] = len(envs)
    run.cov["discover_drift"] = drift
    run.add_mc("MC_Discover", tlc.run_tlc("MC_Discover", cfg="MC_Discover", workers=4, timeout=600))
    if drift:
        run.notes.append(f"DRIFT: {drift} of {len(envs)} environments: discover() does not follow Discover.tla (not a violation by itself)")


def life_program(fam: str, port: int, ka: bool, kinds: str) -> dict:
    """C10 at the level of the inverter object: keep-alive chosen through Inverter.set_keep_alive()."""
    p = hist_program(fam, port, kinds, 0)
    p["inv"][0]["keep_alive"] = ka
    p["case"] = {"case": "life", "what": f"{fam}:{port}:{'ka' if ka else 'nka'}:{kinds}", "ka": ka}
    return p


def life2_program(fam: str, port: int, kas: tuple, seq: tuple) -> dict:
    """Two inverter objects constructed with the SAME arguments (host, port, address, timeout, retries) - a second object for
    the same inverter - with their own keep-alive settings; seq = ((object, kind), ...)."""
    p = hist_program(fam, port, "", 0)
    import copy
    inv0 = p["inv"][0]
    inv0["keep_alive"] = kas[0]
    inv1 = copy.deepcopy(inv0)
    inv1["keep_alive"] = kas[1]
    inv1["host"] = "inv0"
    p["inv"] = [inv0, inv1]
    p["calls"] = [{"api": "read_setting", "args": [f"modbus-{ {'S': S_ADDR, 'F': F_ADDR}[k] }"], "o": o} for o, k in seq]
    p["case"] = {"case": "life", "what": f"two:{fam}:{port}:{kas}:" + "".join(f"{'AB'[o]}{k}" for o, k in seq), "ka": bool(kas[0])}
    return p


def run_life(prog: dict) -> dict:
    """Per call: did it succeed, how many transports opened during calls of THIS object are open afterwards, which transport
    carried its last transmission, the object's keep-alive setting."""
    from .inv_driver import run_program
    tr = run_program(prog)
    owner: dict = {}
    steps = []
    last_tr = 0
    worst = 0
    cur_o = 0
    kas = [bool(i.get("keep_alive")) for i in prog["inv"]]
    for ev in tr["ev"]:
        if ev["e"] == "CALL":
            cur_o = ev.get("o", 0)
        elif ev["e"] == "OPEN":
            owner[ev["tr"]] = cur_o
            worst = max(worst, max(sum(1 for x in owner.values() if x == o) for o in range(len(kas))))
        elif ev["e"] in ("CLOSE", "PEERCLOSE"):
            owner.pop(ev["tr"], None)
        elif ev["e"] == "SEND":
            last_tr = ev["tr"]
        elif ev["e"] == "RET":
            o = ev.get("o", 0)
            steps.append({"ok": bool(ev.get("ok")) and len(steps) not in prog["case"].get("faulty_steps", ()),
                          "open": sum(1 for x in owner.values() if x == o), "tr": last_tr, "o": o,
                          "ka": kas[o] if o < len(kas) else False})
    c = dict(prog["case"])
    c.update(steps=steps, worst=worst, status=tr["status"])
    return c


def mutex_program(fam: str, port: int, ka: bool, retries: int, shape: tuple, delay: int) -> dict:
    """C06 at the level of the inverter object: several tasks use ONE object; shape = per task a string over S (answered), F (never
    answered), R (refused); every call asks for a register of its own whose content identifies it."""
    p = hist_program(fam, port, "", retries)
    p["inv"][0]["keep_alive"] = ka
    tasks, want, n = [], {}, 0
    for ti, kinds in enumerate(shape):
        calls = []
        for k in kinds:
            n += 1
            a = {"S": S_ADDR, "F": F_ADDR, "R": R_ADDR}[k] + n % 10
            if k == "S":
                p["inv"][0]["sim"]["regs"][a] = 1000 + n
            want[str(1000 * (ti + 1) + len(calls))] = [a, 1000 + n if k == "S" else -1]
            calls.append({"api": "read_setting", "args": [f"modbus-{a}"]})
        tasks.append(calls)
    p["calls"], p["tasks"], p["delay"] = [], tasks, delay
    p["case"] = {"case": "mutex", "what": f"{fam}:{port}:{'ka' if ka else 'nka'}:r{retries}:d{delay}:" + "/".join(shape), "want": want}
    return p


def run_mutex(prog: dict) -> dict:
    from .inv_driver import run_program
    tr = run_program(prog)
    want = prog["case"]["want"]
    wins, vals = [], []
    last, reacted = None, False
    for ev in tr["ev"]:
        if ev["e"] == "SEND":
            if last is not None:
                wins.append({"s": ev["t"] - last, "e": 1 if reacted else 0})
            last, reacted = ev["t"], False
        elif ev["e"] in ("DLV", "ERR", "PEERCLOSE"):
            reacted = True
        elif ev["e"] == "RET":
            ci = str(ev.get("ci"))
            if ev.get("ok") and ci in want:
                v = ev.get("val") or {}
                vals.append({"got": v["l"][0] if v.get("k") == "int" and len(v.get("l", [])) == 1 and not v.get("neg") else -2,
                             "want": want[ci][1]})
    c = {k: v for k, v in prog["case"].items() if k != "want"}
    c.update(wins=wins, vals=vals, status=tr["status"], T=int(round(1 / TICK)))
    return c


def run_hist(prog: dict) -> dict:
    from .inv_driver import run_program
    tr = run_program(prog)
    rets = [ev for ev in tr["ev"] if ev["e"] == "RET"]
    hist = []
    for k, ev in zip(prog["case"]["kinds"], rets):
        hist.append({"kind": k, "ok": bool(ev.get("ok")), "fam": bool(ev.get("fam", False)), "failed": bool(ev.get("failed", False)),
                     "rejected": bool(ev.get("rejected", False)), "cfc": int(ev.get("cfc", -1)), "exc": ev.get("exc", ""),
                     "msg": str(ev.get("msg", ""))})
    c = dict(prog["case"])
    c["hist"] = hist
    c["unhandled"] = any(ev["e"] == "UNHANDLED" for ev in tr["ev"])
    c["status"] = tr["status"]
    return c


def ident_payloads(tier: str, rnd: random.Random) -> list[bytes]:
    """Checksum-valid device-info payloads (AA55 0182) whose identification fields are odd."""
    base = bytearray(es_info("95048ESU000W0000"))
    out = [bytes(64), b"\xff" * 64, bytes(base)]
    fields = list(range(0, 5)) + list(range(5, 15)) + list(range(31, 47)) + list(range(51, 63))
    # every position of every identification field; quick: the characters that change how a field is parsed (NUL, space,
    # a digit, a letter, DEL, first non-ASCII byte, 0xFF), thorough: every byte value
    vals = [0x00, 0x20, 0x35, 0x41, 0x7F, 0x80, 0xFF] if tier == "quick" else list(range(256))
    for p in fields:
        for v in vals:
            b = bytearray(base)
            b[p] = v
            out.append(bytes(b))
    # fields cut short by padding (a firmware / model / serial of fewer characters than usual)
    for lo, hi in ((0, 5), (5, 15), (31, 47), (51, 63)):
        for keep in range(0, hi - lo):
            for pad in (0x00, 0x20):
                b = bytearray(base)
                b[lo + keep:hi] = bytes([pad]) * (hi - lo - keep)
                out.append(bytes(b))
    # answers that are shorter (or longer) than the identification block: every length 0..16, then steps
    for n in list(range(0, 17)) + [24, 31, 32, 40, 47, 48, 63, 65, 80, 128, 255]:
        out.append(bytes(base[:n]) + bytes(max(0, n - len(base))))
        out.append(bytes((0x31 + i % 9) for i in range(n)))
    for _ in range(50 if tier == "quick" else 1000):
        out.append(bytes(rnd.randrange(256) for _ in range(rnd.choice([64, 64, 40, 80, 10, 0, 3, 4, 5]))))
    return out


def ident_program(kind: str, payload: bytes, fam: str = "ES", default: int = 0) -> dict:
    if kind == "discover":
        sim = {"aa55": {"info": list(payload)}, "silent": [[0, 65535]]}
        calls = [{"api": "goodwe.discover", "args": ["inv0"], "kw": {"retries": 0, "timeout": 1}}]
    elif fam == "ES":
        sim = {"aa55": {"info": list(payload)}}
        calls = [{"api": "goodwe.connect", "args": ["inv0"], "kw": {"family": "ES", "retries": 0}}]
    else:
        first = 35000 if fam == "ET" else 30001
        regs = {first + i: int.from_bytes(payload[2 * i:2 * i + 2].ljust(2, b"\0"), "big") for i in range(40)}
        # every other register the identification sequence may fall back to (model name, firmware blocks) reads `default`
        sim = {"regs": regs, "default": default}
        calls = [{"api": "goodwe.connect", "args": ["inv0"], "kw": {"family": fam, "retries": 0}}]
    return {"inv": [{"family": None, "sim": sim}], "calls": calls,
            "case": {"case": "call", "what": kind + ":" + fam + (f":unset={default:#06x}" if default else "")}}


def run_call(prog: dict) -> dict:
    from .inv_driver import run_program
    tr = run_program(prog)
    rets = [ev for ev in tr["ev"] if ev["e"] == "RET"]
    ev = rets[-1] if rets else {}
    c = dict(prog["case"])
    c.update(ok=bool(ev.get("ok")), fam=bool(ev.get("fam", False)), exc=ev.get("exc", "none"),
             unhandled=any(e["e"] == "UNHANDLED" for e in tr["ev"]), status=tr["status"])
    return c


def entry_program(what: str, timeout_s: float, retries: int, fam: str | None, answer: str | None = None, port: int = 8899) -> dict:
    """Entry point on a silent network, or one where only the AA55 identification probe is answered (with a serial
    number carrying the model tag `answer`) and every later request goes unanswered."""
    sim = {"silent": [[0, 65535]], "aa55": {"mute": True}}
    if answer:
        sim = {"silent": [[0, 65535]], "aa55": {"info": list(es_info(serial_for(answer) if answer not in ("ESU", "BPS") else "95048" + answer + "000W0000")),
                                                "info_once": True}}
    kw = {"timeout": timeout_s, "retries": retries}
    if port != 8899:
        kw["port"] = port
    if what == "connect":
        calls = [{"api": "goodwe.connect", "args": ["inv0"], "kw": dict(kw, family=fam)}]
    elif what == "connect_discover":
        calls = [{"api": "goodwe.connect", "args": ["inv0"], "kw": dict(kw, do_discover=True)}]
    elif what == "discover":
        calls = [{"api": "goodwe.discover", "args": ["inv0"], "kw": kw}]
    else:
        calls = [{"api": "goodwe.search_inverters", "args": []}]
        timeout_s, retries = 1, 0
    return {"inv": [{"family": None, "sim": sim}], "calls": calls, "delay": 0,
            "case": {"case": "entry", "what": what + (":" + fam if fam else "") + ("/answer=" + answer if answer else "") + (f"/port={port}" if port != 8899 else ""),
                     "T": int(round(timeout_s / TICK)), "retries": retries}}


def run_entry(prog: dict) -> dict:
    from .inv_driver import run_program
    tr = run_program(prog)
    frames = {}
    sends = []
    endT = -1
    ret = {}
    probe = 0
    for ev in tr["ev"]:
        if ev["e"] == "XCALL":
            probe += 1          # every ProtocolCommand.execute() call is one probe
        elif ev["e"] == "SEND":
            key = bytes(ev["data"])
            if len(key) >= 8 and key[2:4] == b"\0\0" and int.from_bytes(key[4:6], "big") == len(key) - 6:
                key = b"\0\0" + key[2:]       # Modbus/TCP: the same request apart from the transaction id
            f = frames.setdefault(key, len(frames) + 1)
            sends.append({"t": ev["t"], "f": f * 1000 + probe, "a": False})
        elif ev["e"] in ("DLV", "ERR", "PEERCLOSE") and sends:
            sends[-1]["a"] = True       # the network reacted to this transmission (an answer, an ICMP error, a reset)
        elif ev["e"] == "RET":
            endT = ev["t"]
            ret = ev
    c = dict(prog["case"])
    c.update(sends=sends, endT=endT, ok=bool(ret.get("ok")), fam=bool(ret.get("fam", False)), exc=ret.get("exc", "none"),
             status=tr["status"])
    return c


CASE_DEFAULT = {"ka": False, "steps": [], "worst": 0, "case": "", "hist": [], "ok": False, "fam": False, "exc": "", "unhandled": False, "sends": [], "T": 0,
                "retries": 0, "endT": 0, "wins": [], "vals": []}


def extend(run: Run, prop: str, tier: str, rnd: random.Random) -> None:
    """Adds the API-level cases of `prop` (C05 or C09) to a run that already holds the protocol-level part."""
    quick = tier == "quick"
    cases = []
    if prop == "C10":
        progs = []
        for fam, port in (("ET", 8899), ("ET", 502), ("DT", 8899), ("DT", 502), ("ES", 8899)):
            for ka in (True, False):
                # every history of up to 4 calls (thorough: 5): a streak of failures of any kind, then successes
                for n in ((1, 2, 3, 4) if quick else (1, 2, 3, 4, 5)):
                    for kinds in itertools.product("SFRE", repeat=n):
                        progs.append(life_program(fam, port, ka, "".join(kinds)))
        # composite operations inside the histories (ET): all histories of length <= 2, of length 3 those that end with an
        # answered plain request (quick: a sample)
        al = "SFRE" + "".join(COMPOSITE)
        for port in (8899, 502):
            for ka in (True, False):
                hs = [h for n in (1, 2) for h in itertools.product(al, repeat=n) if any(k in COMPOSITE for k in h)]
                h3 = [h + ("S",) for h in itertools.product(al, repeat=2) if any(k in COMPOSITE for k in h)]
                if not quick:
                    h3 = [h for h in itertools.product(al, repeat=3) if any(k in COMPOSITE for k in h)]
                for h in hs + h3:
                    progs.append(life_program("ET", port, ka, "".join(h)))
        # composite reads (several requests per call) with one block of the call silent / refused (code 2 = the optional block
        # is skipped, code 4 = the call aborts) / failing in the network, then an answered plain request and the call again
        for fam, port in (("ET", 8899), ("ET", 502), ("DT", 8899), ("DT", 502)):
            for ka in (True, False):
                for api, blk in BLOCKS[fam]:
                    for fault, code in (("silent", 0), ("refused", 2), ("refused", 4), ("oserr", 0)):
                        p = hist_program(fam, port, "", 0)
                        p["inv"][0]["keep_alive"] = ka
                        p["inv"][0]["sim"].setdefault(fault, []).append(blk)
                        if code:
                            p["inv"][0]["sim"]["exc_code"] = code
                        p["calls"] = [{"api": "read_device_info"}, {"api": api}, {"api": "read_setting", "args": [f"modbus-{S_ADDR}"]}, {"api": api}]
                        # a call that met the fault (and may have swallowed it) does not count as a successful request for the
                        # reuse clause: the transport is legitimately replaced after a failed request inside the call
                        p["case"] = {"case": "life", "what": f"{fam}:{port}:{'ka' if ka else 'nka'}:{api}:{fault}{code}:{blk[0]}", "ka": ka,
                                     "faulty_steps": [0, 1, 3] if api == "read_device_info" else [1, 3]}
                        progs.append(p)
        # a second inverter object for the same inverter (same constructor arguments), own keep-alive setting
        al2 = [(0, "S"), (1, "S"), (0, "F"), (1, "F")]
        for fam, port in (("ET", 8899), ("ET", 502), ("DT", 8899), ("ES", 8899)):
            for kas in ((True, False), (False, True), (True, True), (False, False)):
                seqs = [q for n in (2, 3) for q in itertools.product(al2, repeat=n)]
                seqs += [q for q in itertools.product(al2, repeat=4)][:: (5 if quick else 1)]
                for q in seqs:
                    if len({o for o, _ in q}) == 2:
                        progs.append(life2_program(fam, port, kas, q))
        cases += engine.parallel_map("harness.checks_api", "run_life", progs, procs=16, chunk=20)
    elif prop == "C06":
        # several tasks on ONE inverter object: one of them runs into silence (its retries are used up) or a refusal while the
        # others are queued behind it, then goes on with further requests
        progs = []
        shapes = [("FS", "S", "S"), ("FSS", "SS"), ("SF", "FS", "S"), ("RS", "S", "S"), ("FS", "FS"), ("S", "S", "S", "S"), ("FSS", "S", "SS"),
                  ("SFS", "SSS"), ("F", "SS", "S")]
        if not quick:
            shapes += [tuple(x) for x in itertools.product(("F", "FS", "S", "SS", "RS", "SF"), repeat=3)]
        for fam, port in (("ET", 8899), ("ET", 502), ("DT", 8899), ("DT", 502)):
            for ka in (True, False):
                for r in (0, 1, 2):
                    for shape in shapes:
                        for delay in (0, 2):
                            progs.append(mutex_program(fam, port, ka, r, shape, delay))
        cases += engine.parallel_map("harness.checks_api", "run_mutex", progs, procs=16, chunk=10)
    elif prop == "C08":
        # what the caller of the inverter API sees when the inverter refuses (exception code 2): every history of up to
        # 3 (thorough: 5) calls that contains a refusal, every family / transport
        progs = []
        for n in ((1, 2, 3) if quick else (1, 2, 3, 4, 5)):
            for kinds in itertools.product("SFRE", repeat=n):
                if "R" not in kinds:
                    continue
                for fam, port in (("ET", 8899), ("DT", 8899), ("ET", 502), ("DT", 502), ("ES", 8899)):
                    progs.append(hist_program(fam, port, "".join(kinds), len(progs) % 2))
        cases += engine.parallel_map("harness.checks_api", "run_hist", progs, procs=16, chunk=20)
    elif prop == "C09":
        L = 5 if quick else 8
        progs = []
        for n in range(1, L + 1):
            # S answered, F silence (retries exhausted), R refused by the inverter, E failure of the network (ICMP / reset)
            for kinds in itertools.product("SFRE", repeat=n):
                if quick and n >= L - 1 and rnd.random() < (0.8 if n == L else 0.5):
                    continue
                fam, port = (("ET", 8899), ("DT", 8899), ("ET", 502), ("ES", 8899))[(len(progs)) % 4]
                hp = hist_program(fam, port, "".join(kinds), 0 if n > 3 else 1)
                # the inverter refuses with every exception code in turn (what a code means to the device does not change
                # what the caller sees: a rejection, which leaves the failure streak as it is)
                hp["inv"][0]["sim"]["exc_code"] = (2, 1, 3, 4, 5, 6, 7, 8, 10, 11, 0, 9, 12, 255)[(len(progs) // 4) % 14]
                progs.append(hp)
        cases += engine.parallel_map("harness.checks_api", "run_hist", progs, procs=16, chunk=20)
        iprogs = []
        for pl in ident_payloads(tier, rnd):
            iprogs.append(ident_program("discover", pl))
            iprogs.append(ident_program("connect", pl, "ES"))
            if len(iprogs) % 3 == 0:
                iprogs.append(ident_program("connect", pl, "ET"))
                iprogs.append(ident_program("connect", pl, "DT"))
                d = (0xFFFF, 0x80C3, 0x00E9, 0x7F1F)[len(iprogs) % 4]
                iprogs.append(ident_program("connect", pl, "ET", d))
                iprogs.append(ident_program("connect", pl, "DT", d))
        # discover() / connect(do_discover) in every environment of the discovery machine (Discover.tla: who answers the
        # identification probe, once or always, which families answer their information / runtime requests), retries 0..2:
        # whatever the fall-through ends in, only the documented exception family leaves the call
        for k, env in enumerate(disc_envs()):
            if quick and k % 4 and env["tag"] != "silent":
                continue
            dp = disc_program(env)
            r_ = k % 3
            dp["calls"] = [{"api": "goodwe.discover", "args": ["inv0"], "kw": {"retries": r_, "timeout": 1}}] if k % 2 == 0 else \
                [{"api": "goodwe.connect", "args": ["inv0"], "kw": {"do_discover": True, "retries": r_, "timeout": 1}}]
            dp["case"] = {"case": "call", "what": f"discover-env:{env['tag']}:{int(env['once'])}:{k}:r{r_}"}
            iprogs.append(dp)
        cases += engine.parallel_map("harness.checks_api", "run_call", iprogs, procs=16, chunk=20)
    else:
        grid = [(2, 1), (3, 0), (1, 4), (0.5, 2)] if quick else [(2, 1), (3, 0), (1, 4), (0.5, 2), (1, 3), (5, 5), (0.25, 1), (10, 0)]
        eprogs = []
        for t, r in grid:
            for fam in ("ET", "EH", "BT", "BH", "ES", "EM", "BP", "DT", "MS", "D-NS", "XS"):      # every accepted family name
                eprogs.append(entry_program("connect", t, r, fam))
            for fam in ("ET", "DT", "EH"):
                eprogs.append(entry_program("connect", t, r, fam, port=502))
            eprogs.append(entry_program("connect_discover", t, r, None))
            eprogs.append(entry_program("discover", t, r, None))
            for tag in ("ETU", "EHU", "ETT", "ESU", "BPS", "DTU", "DSN", "MSU"):
                eprogs.append(entry_program("discover", t, r, None, answer=tag))
            eprogs.append(entry_program("connect_discover", t, r, None, answer="DTU"))
        eprogs.append(entry_program("search", 1, 0, None))
        # composite calls of an inverter object (several requests per call): the inverter answers every block but one -
        # each request of the call in turn goes unanswered - and that request gets retries + 1 transmissions, one timeout
        # apart, whichever call issued it and wherever in the call it stands (probes of optional features included)
        for t, r in grid:
            for fam, port in (("ET", 8899), ("ET", 502), ("DT", 8899), ("DT", 502), ("ES", 8899)):
                for api, blk in BLOCKS[fam]:
                    sim = {"regs": device_regs(fam, serial_for("ETU" if fam == "ET" else "DTU"), 10000 if len(eprogs) % 2 else 25000)}
                    if fam == "ES":
                        sim["aa55"] = {"info": list(es_info("95048ESU000W0000")), "mute_runtime": True}
                    else:
                        sim["silent"] = [blk]
                    calls = [{"api": "read_device_info"}] + ([{"api": api}] if api != "read_device_info" else [])
                    eprogs.append({"inv": [{"family": fam, "port": port, "sim": sim, "retries": r, "timeout": t}], "calls": calls, "delay": 0,
                                   "case": {"case": "entry", "what": f"composite:{fam}:{port}:{api}:{blk}", "T": int(round(t / TICK)), "retries": r}})
        # a long-lived inverter object: whatever the outcomes so far (answered, silence, refused, network failure), an
        # unanswered request gets retries + 1 transmissions spaced one timeout
        for n in (2, 3, 4, 5, 6):
            hists = list(itertools.product("SFRE", repeat=n))
            if len(hists) > (40 if quick else 400):
                hists = rnd.sample(hists, 40 if quick else 400) + [tuple("F" * n), tuple("E" * (n - 1) + "F"), tuple("R" * (n - 1) + "F")]
            for kinds in hists:
                fam, port = (("ET", 8899), ("DT", 8899), ("ET", 502), ("ES", 8899), ("DT", 502))[len(eprogs) % 5]
                r = 1 + len(eprogs) % 2
                hp = hist_program(fam, port, "".join(kinds), r)
                hp["delay"] = 0
                hp["case"] = {"case": "entry", "what": f"history:{fam}:{port}:{''.join(kinds)}", "T": int(round(1 / TICK)), "retries": r}
                eprogs.append(hp)
        cases += engine.parallel_map("harness.checks_api", "run_entry", eprogs, procs=16, chunk=2)
        # which probes discover() sends at all, in which order: the machine Discover.tla, all 320 environments
        compare_discover(run)
    for c in cases:
        if c.get("status") != "ok":
            raise engine.MachineryError("API program did not finish: " + str(c.get("what", c.get("kinds"))))
    js = []
    for c in cases:
        d = dict(CASE_DEFAULT)
        for k in CASE_DEFAULT:
            if k in c:
                d[k] = c[k]
        js.append(d)
    path = os.path.join(run.workdir, "api.json")
    tlc.write_json(path, {"cases": js})
    r = tlc.run_tlc("TraceApi", env={"VERIF_BATCH": path}, workers=16, timeout=3000)
    if not r["ok"]:
        raise engine.MachineryError("TraceApi failed\n" + r["stdout"][-3000:])
    v = tlc.parse_verdicts(r["stdout"])
    if len(v) != len(js):
        raise engine.MachineryError(f"{len(v)} verdicts for {len(js)} API cases")
    os.remove(path)
    run.cov["states"] += r.get("distinct", 0)
    run.cov["transitions"] += r.get("generated", 0)
    run.cov["evaluations"] += len(cases)
    run.cov["traces_validated_against_impl"] += len(cases)
    run.cov["distinct_nontrivial"] += len(cases)
    run.cov["families"]["api_" + prop] = len(cases)
    for k, c in enumerate(cases):
        for clause, _ in v[k + 1]:
            cl, _, extra = clause.partition(":")
            if not cl.startswith(prop + "."):
                continue
            detail = {"what": c.get("what", c.get("kinds", "")), "exc": extra or c.get("exc", "")}
            if c["case"] == "entry":
                detail.update(T=c["T"], retries=c["retries"], nsends=len(c["sends"]))
            run.violation(cl, detail, {"apicase": {kk: vv for kk, vv in c.items()}})
    if cases:
        run.cov["samples"].append({"api_case": cases[len(cases) // 2]})
