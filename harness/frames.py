"""Frame builders for the simulated peer (harness side, NOT trusted as an oracle: every frame the
peer serves is logged in the trace and classified again by spec/Wire.tla inside TLC).

Deliberately independent of goodwe.modbus (bitwise CRC instead of the library's table).
"""
from __future__ import annotations


def crc16(data: bytes) -> int:
    crc = 0xFFFF
    for b in data:
        crc ^= b
        for _ in range(8):
            crc = (crc >> 1) ^ 0xA001 if crc & 1 else crc >> 1
    return crc


def with_crc(body: bytes) -> bytes:
    c = crc16(body)
    return body + bytes([c & 0xFF, c >> 8])


def rtu_read_answer(addr: int, payload: bytes) -> bytes:
    return b"\xaa\x55" + with_crc(bytes([addr, 3, len(payload)]) + payload)


def rtu_write_answer(addr: int, fn: int, reg: int, n: int) -> bytes:
    return b"\xaa\x55" + with_crc(bytes([addr, fn]) + reg.to_bytes(2, "big") + (n & 0xFFFF).to_bytes(2, "big"))


def rtu_exception(addr: int, fn: int, code: int) -> bytes:
    return b"\xaa\x55" + with_crc(bytes([addr, fn | 0x80, code]))


def tcp_read_answer(tx: bytes, addr: int, payload: bytes) -> bytes:
    return tx + b"\x00\x00" + (3 + len(payload)).to_bytes(2, "big") + bytes([addr, 3, len(payload)]) + payload


def tcp_write_answer(tx: bytes, addr: int, fn: int, reg: int, n: int) -> bytes:
    return tx + b"\x00\x00\x00\x06" + bytes([addr, fn]) + reg.to_bytes(2, "big") + (n & 0xFFFF).to_bytes(2, "big")


def tcp_exception(tx: bytes, addr: int, fn: int, code: int) -> bytes:
    return tx + b"\x00\x00\x00\x03" + bytes([addr, fn | 0x80, code])


def aa55_answer(rt: int, payload: bytes) -> bytes:
    f = b"\xaa\x55\x7f\xc0" + rt.to_bytes(2, "big") + bytes([len(payload)]) + payload
    return f + (sum(f) & 0xFFFF).to_bytes(2, "big")


def aa55_request(body: bytes) -> bytes:
    f = b"\xaa\x55\xc0\x7f" + body
    return f + (sum(f) & 0xFFFF).to_bytes(2, "big")


def parse_request(fr: str, b: bytes) -> dict | None:
    """Decode a request the library transmitted (simulator side)."""
    try:
        if fr == "rtu":
            if len(b) < 8 or crc16(b[:-2]) != b[-2] | (b[-1] << 8):
                return None
            fn = b[1]
            d = {"addr": b[0], "fn": fn, "reg": int.from_bytes(b[2:4], "big"), "n": int.from_bytes(b[4:6], "big"),
                 "tx": b""}
            if fn == 16:
                d["payload"] = b[7:-2]
            return d
        if fr == "tcp":
            if len(b) < 12:
                return None
            fn = b[7]
            d = {"addr": b[6], "fn": fn, "reg": int.from_bytes(b[8:10], "big"), "n": int.from_bytes(b[10:12], "big"),
                 "tx": b[0:2]}
            if fn == 16:
                d["payload"] = b[13:]
            return d
        if fr == "aa55":
            if len(b) < 9 or b[:4] != b"\xaa\x55\xc0\x7f":
                return None
            return {"ctl": b[4], "fn": b[5], "payload": b[7:-2], "tx": b""}
    except IndexError:
        return None
    return None
