"""Fidelity self-test of the virtual loop and the fake transports: a few scenarios are executed once on the virtual
loop and once over REAL loopback UDP / TCP sockets on the stock event loop (small real timeouts), and the shape of
what the library did is compared: transmissions per request, outcome per request, sockets opened.

This is a harness self-test (wall clock involved): it never produces a verdict about a property; a difference is
reported as HARNESS-MISMATCH note and recorded in the evidence."""
from __future__ import annotations

import asyncio
import os
import socket
import sys

sys.path.insert(0, os.environ.get("VERIF_REPO", "/repo"))

from . import frames as F  # noqa: E402
from .proto_driver import GARBAGE, GARBAGE_TCP, classify_exc, run_scenario  # noqa: E402

TICK_REAL = 0.06      # seconds per tick on the real loop (timeout = T * TICK_REAL)


def shape_virtual(sc: dict) -> list:
    tr = run_scenario(sc)
    per: dict[int, list] = {}
    cur = None
    opened = 0
    for ev in tr["ev"]:
        if ev["e"] == "CALL":
            cur = ev["r"]
            per[cur] = [0, ""]
        elif ev["e"] == "SEND" and cur is not None:
            per[cur][0] += 1
        elif ev["e"] == "RET":
            per[ev["r"]][1] = ev["out"]
            cur = None
        elif ev["e"] == "OPEN":
            opened += 1
    return [[per[r][0], per[r][1]] for r in sorted(per)] + [["opened", opened]]


class _UdpPeer(asyncio.DatagramProtocol):
    def __init__(self, sc, log):
        self.sc, self.log, self.n = sc, log, {}

    def connection_made(self, transport):
        self.t = transport

    def datagram_received(self, data, addr):
        _serve(self, data, lambda b: self.t.sendto(b, addr), None)


class _TcpPeer(asyncio.Protocol):
    def __init__(self, sc, log, shared):
        self.sc, self.log, self.n = sc, log, shared

    def connection_made(self, transport):
        self.t = transport

    def data_received(self, data):
        _serve(self, data, self.t.write, self.t.close)


def _serve(peer, data, send, close):
    sc = peer.sc
    p = F.parse_request(sc["fr"], data) or {}
    reg = p.get("reg", 0)
    k = peer.n.get(reg, 0)
    peer.n[reg] = k + 1
    lst = sc["rfaults"][reg - 100] if 0 <= reg - 100 < len(sc["rfaults"]) else []
    f = lst[k] if k < len(lst) else {"k": "drop"}
    loop = asyncio.get_running_loop()
    d = f.get("d", 0) * TICK_REAL
    fr = sc["fr"]
    pl = (reg & 0xFFFF).to_bytes(2, "big") * p.get("n", 1)
    ans = F.rtu_read_answer(p["addr"], pl) if fr == "rtu" else F.tcp_read_answer(p["tx"], p["addr"], pl)
    kind = f["k"]
    if kind == "drop":
        return
    if kind == "ans":
        loop.call_later(d, send, ans)
    elif kind == "garbage":
        loop.call_later(d, send, GARBAGE_TCP if fr == "tcp" else GARBAGE)
    elif kind == "exc":
        e = F.rtu_exception(p["addr"], p["fn"], f.get("code", 2)) if fr == "rtu" else F.tcp_exception(p["tx"], p["addr"], p["fn"], f.get("code", 2))
        loop.call_later(d, send, e)
    elif kind == "frag":
        s = f.get("split", 6)
        loop.call_later(d, send, ans[:s])
        loop.call_later(f.get("d2", d) * TICK_REAL, send, ans[s:])
    elif kind == "pclose" and close is not None:
        loop.call_later(d, close)


async def _real(sc: dict) -> list:
    from goodwe.protocol import TcpInverterProtocol, UdpInverterProtocol
    loop = asyncio.get_running_loop()
    log: list = []
    opened = [0]
    shared: dict = {}
    if sc["kind"] == "udp":
        srv, _ = await loop.create_datagram_endpoint(lambda: _UdpPeer(sc, log), local_addr=("127.0.0.1", 0))
        port = srv.get_extra_info("sockname")[1]
        orig = loop.create_datagram_endpoint

        async def cde(*a, **kw):
            if "remote_addr" in kw:
                opened[0] += 1
            return await orig(*a, **kw)
        loop.create_datagram_endpoint = cde
        proto = UdpInverterProtocol("127.0.0.1", port, 0xF7, sc["T"] * TICK_REAL, sc["retries"])
    else:
        server = await loop.create_server(lambda: _TcpPeer(sc, log, shared), "127.0.0.1", 0)
        port = server.sockets[0].getsockname()[1]
        orig = loop.create_connection

        async def cc(*a, **kw):
            opened[0] += 1
            return await orig(*a, **kw)
        loop.create_connection = cc
        proto = TcpInverterProtocol("127.0.0.1", port, 0xF7, sc["T"] * TICK_REAL, sc["retries"])
    proto.keep_alive = bool(sc["ka"])
    sends = [0]
    out = []
    # count transmissions at the transport boundary
    for cls_name in ("sendto", "write"):
        pass
    for step in sc["epochs"][0][0]["prog"]:
        if step["do"] != "req":
            await asyncio.sleep(step.get("d", 0) * TICK_REAL)
            continue
        cmd = proto.read_command(step["reg"], step["n"])
        before = sum(1 for _ in ())
        try:
            await cmd.execute(proto)
            res = "ok"
        except Exception as ex:  # noqa
            res = classify_exc(ex)[0]
        out.append(res)
    opened_before_close = opened[0]
    try:
        await proto.close()
    except Exception:  # noqa
        pass
    await asyncio.sleep(0.1)
    if sc["kind"] == "udp":
        srv.close()
        counts = [0] * len(out)
    else:
        server.close()
        await server.wait_closed()
    return out, opened_before_close


def shape_real(sc: dict) -> list:
    # transmissions are counted by the peer (requests received per register)
    counts: dict = {}
    orig_serve = globals()["_serve"]

    def counting(peer, data, send, close):
        p = F.parse_request(peer.sc["fr"], data) or {}
        counts[p.get("reg", 0)] = counts.get(p.get("reg", 0), 0) + 1
        return orig_serve(peer, data, send, close)
    globals()["_serve"] = counting
    try:
        out, opened = asyncio.run(_real(sc))
    finally:
        globals()["_serve"] = orig_serve
    regs = [st["reg"] for st in sc["epochs"][0][0]["prog"] if st["do"] == "req"]
    return [[counts.get(r, 0), o] for r, o in zip(regs, out)] + [["opened", opened]]


def scenarios() -> list[dict]:
    out = []

    def mk(kind, ka, retries, rf):
        fr = "rtu" if kind == "udp" else "tcp"
        prog = []
        for i in range(len(rf)):
            if i:
                prog.append({"do": "sleep", "d": 0})
            prog.append({"do": "req", "op": "read", "reg": 100 + i, "n": 2})
        return {"kind": kind, "fr": fr, "ka": ka, "retries": retries, "T": 4, "epochs": [[{"start": 0, "prog": prog}]],
                "rfaults": rf, "family": "loopback"}
    A = {"k": "ans", "d": 0}
    for kind in ("udp", "tcp"):
        for ka in (True, False):
            out.append(mk(kind, ka, 1, [[A], [A]]))
            out.append(mk(kind, ka, 1, [[{"k": "drop"}, A], [A]]))
            out.append(mk(kind, ka, 1, [[{"k": "drop"}, {"k": "drop"}], [A]]))
            out.append(mk(kind, ka, 2, [[{"k": "garbage", "d": 0}, A], [A]]))
            out.append(mk(kind, ka, 1, [[{"k": "exc", "code": 2, "d": 0}], [A]]))
            out.append(mk(kind, ka, 1, [[{"k": "frag", "split": 6 if kind == "udp" else 10, "d": 0, "d2": 1}], [A]]))
    out.append(mk("tcp", True, 1, [[{"k": "pclose", "d": 1}, A], [A]]))
    out.append(mk("tcp", False, 1, [[{"k": "pclose", "d": 1}, A], [A]]))
    return out


def _one(i: int) -> dict:
    sc = scenarios()[i]
    v = shape_virtual(sc)
    r = shape_real(sc)
    if v != r:
        r = shape_real(sc)      # wall-clock involved: a difference must repeat to count
    return {"scenario": {k: sc[k] for k in ("kind", "ka", "retries", "rfaults")}, "virtual": v, "real": r}


def run_selftest() -> dict:
    """Every scenario runs in its own subprocess under a watchdog (a hang of the real-socket run is a result, not a hang
    of the check)."""
    import json
    import subprocess
    res = {"scenarios": 0, "mismatches": [], "errors": []}
    here = os.path.dirname(os.path.dirname(os.path.abspath(__file__)))
    for i in range(len(scenarios())):
        res["scenarios"] += 1
        try:
            p = subprocess.run([sys.executable, "-m", "harness.selftest_loopback", str(i)], cwd=here, capture_output=True,
                               text=True, timeout=40, env=dict(os.environ))
            d = json.loads(p.stdout.strip().splitlines()[-1])
            if d["virtual"] != d["real"]:
                res["mismatches"].append(d)
        except subprocess.TimeoutExpired:
            res["errors"].append(f"scenario {i}: no result within 40 s")
        except Exception as ex:  # noqa
            res["errors"].append(f"scenario {i}: {type(ex).__name__}: {ex}"[:200])
    return res


if __name__ == "__main__":
    import json
    if len(sys.argv) > 1:
        print(json.dumps(_one(int(sys.argv[1]))))
    else:
        print(json.dumps(run_selftest(), indent=1))
