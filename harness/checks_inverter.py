"""C14 C15 C16 C18: capability negotiation, request windows, single reads and the read-only API of ET / DT / ES,
executed on simulated inverters over the real wire path and judged span by span by TraceDecode.tla (clauses
Window, KeysEqSensors, SecondCall, SameAsBulk, Resolvable, ReadOnly, GuardFirst, ValueError); the block-level
design model Inverter.tla is checked exhaustively by TLC and its predictions are compared with the requests
the real classes issue (DRIFT when they differ)."""
from __future__ import annotations

import itertools
import os
import random
import sys

sys.path.insert(0, os.environ.get("VERIF_REPO", "/repo"))

from . import engine, tlc  # noqa: E402
from .checks_decode import (BLOCKS, device_regs, es_info, judge_spans, run_program_values)  # noqa: E402
from .engine import Run  # noqa: E402

# optional register blocks an ET inverter may refuse (ILLEGAL DATA ADDRESS), as address ranges
ET_BLOCKS = {
    "battery": (37000, 37023), "battery2": (39000, 39021), "meter_ext2": (36058, 36124), "meter_ext": (36045, 36057),
    "mppt": (35301, 35361), "eco_v2": (47547, 47552), "peak": (47589, 47594),
}
DT_BLOCKS = {"meter": (30195, 30209)}


def serial_for(tag: str) -> str:
    s = "9" + "010K" + tag
    return (s + "0" * 16)[:16]


def et_tags(tier: str) -> list[str]:
    from goodwe import model as M
    if tier == "quick":
        # one tag per predicate class: plain 205, single phase, 745 LV single phase, 745 HV, 753 4-MPPT single phase,
        # 2-battery big model
        return ["ETU", "EHU", "ESN", "ETT", "HSB", "25KET", "AES"]
    tags = list(M.ET_MODEL_TAGS) + ["25KET", "29K9ET"]
    return list(dict.fromkeys(tags))


def dt_tags(tier: str) -> list[str]:
    from goodwe import model as M
    if tier == "quick":
        return ["DTU", "DSN", "MSU", "PSC"]
    return list(M.DT_MODEL_TAGS)


def rnd_fill(fam: str, rnd: random.Random, battery_mode: int | None) -> dict:
    regs = {}
    for first, count in BLOCKS.get(fam, []):
        for a in range(first, first + count + 2):
            regs[a] = rnd.randrange(65536)
    if fam == "ET" and battery_mode is not None:
        regs[35184] = battery_mode
    return {"set": {str(k): v for k, v in regs.items()}}


def cfg_program(fam: str, tag: str, rated: int, refused_names: tuple, bat_seq: tuple, rnd: random.Random, port: int = 8899,
                silent_names: tuple = ()) -> dict:
    serial = serial_for(tag)
    blocks = ET_BLOCKS if fam == "ET" else DT_BLOCKS
    sim = {"regs": device_regs(fam, serial, rated), "refused": [list(blocks[n]) for n in refused_names],
           "silent": [list(blocks[n]) for n in silent_names]}
    calls = [{"api": "read_device_info"}, {"api": "table:sensors"}]
    for bm in bat_seq:
        calls.append({"sim": rnd_fill(fam, rnd, bm)})
        calls.append({"api": "read_runtime_data", "span": {"decode": False,
                                                            "detail": {"tag": tag, "rated": rated, "refused": ",".join(refused_names),
                                                                       "silent": ",".join(silent_names)}}})
        calls.append({"api": "table:sensors"})
    return {"inv": [{"family": fam, "port": port, "sim": sim, "retries": 0, "timeout": 1}], "calls": calls,
            "cfg": {"fam": fam, "tag": tag, "rated": rated, "refused": list(refused_names), "bat": list(bat_seq)}}


def gen_config_programs(tier: str, rnd: random.Random) -> list[dict]:
    quick = tier == "quick"
    progs = []
    names = list(ET_BLOCKS)
    subsets = [c for k in range(len(names) + 1) for c in itertools.combinations(names, k)]
    rated_classes = [5000, 15000, 25000]
    rep = set(et_tags("quick"))
    for tag in et_tags(tier):
        for rated in rated_classes:
            subs = subsets
            if quick or tag not in rep:
                # all subsets for one power class per tag, the singletons and the full set for the others
                if rated != rated_classes[hash(tag) % 3]:
                    subs = [c for c in subsets if len(c) <= 1 or len(c) == len(names)]
            for sub in subs:
                bat_seqs = [(1, 1, 1), (0, 1, 0)] if ((quick or tag not in rep) and len(sub) > 1) else [(1, 1, 1), (0, 0, 0), (0, 1, 0), (1, 0, 1)]
                for bs in bat_seqs:
                    progs.append(cfg_program("ET", tag, rated, sub, bs, rnd, 502 if (len(progs) % 5 == 0) else 8899))
    # rated powers next to the class boundaries (and the extremes of the register), every tag class, all blocks answered
    for tag in et_tags("quick"):
        for rated in (0, 1, 14999, 15001, 24999, 25001, 65535):
            progs.append(cfg_program("ET", tag, rated, (), (1, 0, 1), rnd, 502 if (len(progs) % 5 == 0) else 8899))
    for tag in dt_tags(tier):
        for refused, silent in (((), ()), (("meter",), ()), ((), ("meter",))):
            progs.append(cfg_program("DT", tag, 0, refused, (None, None, None), rnd, silent_names=silent))
    # Modbus/TCP answers whose MBAP length field is not what the frame holds (accepted: the validator ignores the field):
    # every tag class, every block answered / one block refused
    for fam, tags in (("ET", et_tags("quick")), ("DT", dt_tags("quick"))):
        for tag in tags:
            for mb in ("bytecount", "six", "zero", "max"):
                for sub in (((), ("battery",)) if fam == "ET" else ((), ("meter",))):
                    p = cfg_program(fam, tag, 15000 if fam == "ET" else 0, sub, (1, 1, 1) if fam == "ET" else (None, None, None), rnd, 502)
                    p["mbap"] = mb
                    progs.append(p)
    # ES: every model tag of the family x firmware (arm version below / at 14 decides the eco-mode generation), three calls
    from goodwe import model as M
    es_tags = list(M.ES_MODEL_TAGS)
    fws = ["1414B", "0909A"] if quick else ["1414B", "0909A", "1313C", "1919D", "0000 "]
    for tag in es_tags:
        for fw in fws:
            sim = {"aa55": {"info": list(es_info("95048" + tag + "000W0000", fw))}}
            calls = [{"api": "read_device_info"}, {"api": "table:sensors"}]
            for _ in range(3):
                calls.append({"sim": {"aa55": {"runtime": [rnd.randrange(256) for _ in range(149)]}}})
                calls.append({"api": "read_runtime_data", "span": {"decode": False, "detail": {"tag": tag, "fw": fw}}})
                calls.append({"api": "table:sensors"})
            progs.append({"inv": [{"family": "ES", "sim": sim, "retries": 0}], "calls": calls})
    return progs


def gen_single_programs(tier: str, rnd: random.Random) -> list[dict]:
    """C16: read_runtime_data then read_sensor(id) for every listed id, also after the set of sensors changed."""
    quick = tier == "quick"
    progs = []
    cfgs = [("ET", "ETU", 10000, ()), ("ET", "EHU", 5000, ("battery",)), ("ET", "ETT", 10000, ()),
            ("ET", "25KET", 25000, ("mppt",)), ("DT", "DTU", 0, ()), ("DT", "DSN", 0, ("meter",)), ("DT", "MSU", 0, ())]
    if not quick:
        cfgs += [("ET", "HSB", 10000, ("meter_ext2",)), ("ET", "ESN", 5000, ("meter_ext2", "meter_ext")),
                 ("ET", "ETU", 15000, ("battery2",)), ("DT", "PSC", 0, ())]
    fills = ["random", "random", "small", "ff"] if quick else ["random"] * 6 + ["small", "small", "ff", "zero", "7f", "80"]
    for fam, tag, rated, refused in cfgs:
        for mode in fills:
            for history in ("bulk_first", "single_first_then_battery", "two_polls", "settings_first", "capability_loss"):
                if fam == "DT" and history == "single_first_then_battery":
                    continue
                if history in ("settings_first", "capability_loss") and mode != fills[0] and quick:
                    continue
                serial = serial_for(tag)
                blocks = ET_BLOCKS if fam == "ET" else DT_BLOCKS
                sim = {"regs": device_regs(fam, serial, rated), "refused": [list(blocks[n]) for n in refused]}
                from .checks_decode import fill_regs
                regs = fill_regs(fam, rnd, mode, [])
                calls = [{"api": "read_device_info"}]
                if history == "settings_first":
                    # the other reading calls come first: ids that name both a sensor and a setting, the settings bulk read,
                    # the getters
                    calls += [{"api": "read_settings_data", "span": {"decode": False}}, {"api": "SHAREDSETTINGS"},
                              {"api": "get_grid_export_limit"}]
                    if fam == "ET":
                        calls += [{"api": "get_operation_mode"}]
                if history == "single_first_then_battery":
                    # first use of read_sensor while the battery is absent, then the battery appears
                    r0 = dict(regs)
                    r0[35184] = 0
                    calls += [{"sim": {"set": {str(k): v for k, v in r0.items()}}},
                              {"api": "read_runtime_data", "span": {"decode": False}}, {"api": "table:sensors"},
                              {"api": "read_sensor", "args": ["vpv1"], "span": {"decode": False}}]
                    regs[35184] = 2
                elif fam == "ET" and mode == "random":
                    regs[35184] = rnd.choice([1, 2, 3])
                calls += [{"sim": {"set": {str(k): v for k, v in regs.items()}}},
                          {"api": "read_runtime_data", "span": {"decode": False}}, {"api": "table:sensors"}]
                if history == "two_polls":
                    # what is listed may change again with every poll (a refused block is asked for again, a flag re-derived)
                    calls += [{"api": "read_runtime_data", "span": {"decode": False}}, {"api": "table:sensors"},
                              {"api": "read_runtime_data", "span": {"decode": False}}, {"api": "table:sensors"}]
                calls += [{"api": "ALLSENSORS"}]
                if history == "capability_loss":
                    # every optional block answered so far is refused from now on: two polls, then every listed id again
                    calls += [{"sim": {"refused": [list(v) for v in blocks.values()], "silent": []}},
                              {"api": "read_runtime_data", "span": {"decode": False, "full": False}}, {"api": "table:sensors"},
                              {"api": "read_runtime_data", "span": {"decode": False}}, {"api": "table:sensors"}, {"api": "ALLSENSORS"}]
                progs.append({"inv": [{"family": fam, "sim": sim, "retries": 0}], "calls": calls,
                              "cfg": {"fam": fam, "tag": tag, "history": history, "fill": mode}})
    return progs


def expand_allsensors(prog: dict) -> dict:
    """ALLSENSORS -> one read_sensor call per id listed by sensors() at that point of the program; SHAREDSETTINGS -> one
    read_setting call per id that names both a sensor and a setting at that point (ids taken from the live object in a dry
    run of the program in which every marker is replaced by sensors() / settings())."""
    from .inv_driver import run_program
    markers = ("ALLSENSORS", "SHAREDSETTINGS")
    dry = dict(prog)
    dry["calls"] = [x for c in prog["calls"] for x in ([{"api": "sensors"}, {"api": "settings"}] if c.get("api") in markers else [c])]
    tr = run_program(dry)
    lists = []
    for ev in tr["ev"]:
        if ev["e"] == "RET" and ev.get("api") in ("sensors", "settings"):
            lists.append([x["s"] for x in ev["val"]["v"]] if ev.get("ok") else [])
    calls = []
    detail = {k: str(v) for k, v in prog.get("cfg", {}).items()}
    k = 0
    for c in prog["calls"]:
        if c.get("api") in markers:
            sens, sets = (lists[2 * k], lists[2 * k + 1]) if 2 * k + 1 < len(lists) else ([], [])
            k += 1
            if c["api"] == "ALLSENSORS":
                for i in dict.fromkeys(sens):
                    calls.append({"api": "read_sensor", "args": [i], "span": {"decode": False, "detail": detail}})
            else:
                for i in dict.fromkeys(x for x in sets if x in set(sens)):
                    calls.append({"api": "read_setting", "args": [i], "span": {"decode": False, "pair": False, "detail": detail}})
        else:
            calls.append(c)
    out = dict(prog)
    out["calls"] = calls
    return out


def run_single_program(prog: dict) -> dict:
    return run_program_values(expand_allsensors(prog))


def expand_hidden_settings(prog: dict) -> dict:
    """HIDDENWRITES -> write_setting(id, 1) for every setting id that was listed right after read_device_info but is no longer
    listed at this point (the inverter refused its registers): such an id is unknown now, so nothing may be written."""
    if not any(c.get("api") == "HIDDENWRITES" for c in prog["calls"]):
        return prog
    from .inv_driver import run_program
    k = [i for i, c in enumerate(prog["calls"]) if c.get("api") == "HIDDENWRITES"][0]
    dry = dict(prog)
    dry["calls"] = [c for c in prog["calls"][:1]] + [{"api": "settings"}] + [c for c in prog["calls"][1:k]] + [{"api": "settings"}]
    tr = run_program(dry)
    lists = [[x["s"] for x in ev["val"]["v"]] for ev in tr["ev"] if ev["e"] == "RET" and ev.get("api") == "settings" and ev.get("ok")]
    gone = [i for i in lists[0] if i not in set(lists[-1])] if len(lists) >= 2 else []
    calls = list(prog["calls"][:k])
    for sid in gone:
        calls.append({"api": "write_setting", "args": [sid, 1],
                      "span": {"guard": True, "documented": True, "decode": False, "detail": {"arg": "no longer listed: " + sid}}})
    calls += prog["calls"][k + 1:]
    out = dict(prog)
    out["calls"] = calls
    return out


def expand_unlisted_writes(prog: dict) -> dict:
    """UNLISTEDWRITES -> write_setting(id, 1) for every setting id that an object of this family lists on an inverter that
    answers everything, but that THIS object does not list at this point (its registers were refused, or never answered):
    an id outside settings() is an unknown id, nothing may be written."""
    if not any(c.get("api") == "UNLISTEDWRITES" for c in prog["calls"]):
        return prog
    import copy
    from .inv_driver import run_program
    k = [i for i, c in enumerate(prog["calls"]) if c.get("api") == "UNLISTEDWRITES"][0]
    full = copy.deepcopy(prog)
    full["inv"][0]["sim"]["refused"] = []
    full["inv"][0]["sim"]["silent"] = []
    full["calls"] = [{"api": "read_device_info"}, {"api": "settings"}]
    here = dict(prog)
    here["calls"] = [c for c in prog["calls"][:k]] + [{"api": "settings"}]
    lists = []
    for pr in (full, here):
        tr = run_program(pr)
        got = [[x["s"] for x in ev["val"]["v"]] for ev in tr["ev"] if ev["e"] == "RET" and ev.get("api") == "settings" and ev.get("ok")]
        lists.append(got[-1] if got else [])
    gone = [i for i in lists[0] if i not in set(lists[1])]
    calls = list(prog["calls"][:k])
    for sid in gone:
        calls.append({"api": "write_setting", "args": [sid, 1],
                      "span": {"guard": True, "documented": True, "decode": False, "detail": {"arg": "not listed: " + sid}}})
    calls += prog["calls"][k + 1:]
    out = dict(prog)
    out["calls"] = calls
    return out


def expand_writes_like_reads(prog: dict) -> dict:
    """WRITESLIKEREADS -> one valid write_setting('modbus-R', N) for every read request (register R, count N) that the calls
    after the marker transmit on a fresh object: a history in which every later read has an earlier write with the same two
    numbers in the same places."""
    if not any(c.get("api") == "WRITESLIKEREADS" for c in prog["calls"]):
        return prog
    from .inv_driver import run_program
    from . import frames as F
    k = [i for i, c in enumerate(prog["calls"]) if c.get("api") == "WRITESLIKEREADS"][0]
    dry = dict(prog)
    dry["calls"] = prog["calls"][:k] + prog["calls"][k + 1:]
    tr = run_program(dry)
    fr = "tcp" if prog["inv"][0].get("port", 8899) == 502 else "rtu"
    reads = []
    for ev in tr["ev"]:
        if ev["e"] != "SEND":
            continue
        b = bytes(ev["data"])
        if b[:4] == b"\xaa\x55\xc0\x7f":
            p = F.parse_request("aa55", b)
            if p and p["ctl"] == 1 and p["fn"] == 9 and len(p["payload"]) == 3:
                reads.append((int.from_bytes(p["payload"][:2], "big"), p["payload"][2]))
        else:
            p = F.parse_request(fr, b)
            if p and p["fn"] == 3:
                reads.append((p["reg"], p["n"]))
    calls = list(prog["calls"][:k])
    for reg, n in dict.fromkeys(reads):
        calls.append({"api": "write_setting", "args": [f"modbus-{reg}", n], "span": {"decode": False}})
    calls += prog["calls"][k + 1:]
    out = dict(prog)
    out["calls"] = calls
    return out


def run_readonly_program(prog: dict) -> dict:
    return run_program_values(expand_writes_like_reads(expand_unlisted_writes(expand_hidden_settings(prog))))


def gen_readonly_programs(tier: str, rnd: random.Random) -> list[dict]:
    """C18: the monitoring API on every family, and setters with arguments around their valid intervals."""
    quick = tier == "quick"
    progs = []
    ints = sorted(set(list(range(-300, 301, 3 if quick else 1)) + [-32769, -32768, -65536, -2 ** 31, 32768, 65535, 65536, 2 ** 31,
                                                                    -1, 0, 1, 99, 100, 101, 89, 90]))
    # every capability variant of the three families (platform, eco-mode generation, peak shaving, ES firmware, DT phases,
    # transport): which branch a setter takes depends on them
    from .checks_modes import VARIANTS, DT_VARIANTS, inv_spec
    for variant in VARIANTS + DT_VARIANTS:
        fam, port = variant[1], variant[3]
        sim = inv_spec(variant, "00" * 12)["sim"]
        sim["regs"].update({47000: 1, 45356: 20, 47510: 3000, 40328: 50, 40336: 50})
        ro_calls = [{"api": "read_device_info"}, {"api": "read_runtime_data", "span": {"decode": False}},
                    {"api": "read_runtime_data", "span": {"decode": False}}, {"api": "read_settings_data", "span": {"decode": False}},
                    {"api": "get_grid_export_limit"}, {"api": "get_operation_modes", "args": [True]}]
        if fam != "DT":
            ro_calls += [{"api": "get_operation_mode"}, {"api": "get_ongrid_battery_dod"}]
        for sid in (["vpv1", "ppv", "work_mode", "e_total"] if fam != "ES" else ["vpv1", "ppv"]):
            ro_calls.append({"api": "read_sensor", "args": [sid], "span": {"decode": False, "pair": False}})
        for sid in (["grid_export_limit", "work_mode", "eco_mode_1", "time"] if fam != "DT" else ["grid_export_limit", "time"]):
            ro_calls.append({"api": "read_setting", "args": [sid], "span": {"decode": False, "pair": False}})
        ro_calls.append({"api": "read_setting", "args": ["modbus-47000"], "span": {"decode": False, "pair": False}})
        progs.append({"inv": [{"family": fam, "port": port, "sim": sim, "retries": 0}], "calls": ro_calls})
        # the same monitoring calls after a history of valid writes whose (register, value) are the (register, count) of the reads
        det = {"span": {"decode": False, "pair": False, "detail": {"state": "after writes that look like the reads"}}}
        progs.append({"inv": [{"family": fam, "port": port, "sim": sim, "retries": 0}],
                      "calls": [ro_calls[0], {"api": "WRITESLIKEREADS"}] + [dict(c, **det) for c in ro_calls[1:]]})
        # setters
        calls = [{"api": "read_device_info"}]
        for x in ints:
            det = {"arg": x, "variant": variant[0]}
            calls.append({"api": "set_grid_export_limit", "args": [x],
                          "span": {"guard": x < 0, "documented": False, "decode": False, "detail": det}})
            if fam != "DT":
                calls.append({"api": "set_ongrid_battery_dod", "args": [x],
                              "span": {"guard": not (0 <= x <= 100), "documented": False, "decode": False, "detail": det}})
                bad = not (0 <= x <= 100)
                if abs(x) < 40000:
                    calls.append({"api": "set_operation_mode", "args": [{"opmode": 98}, x, 50],
                                  "span": {"guard": bad, "documented": bad, "decode": False, "detail": det}})
                    calls.append({"api": "set_operation_mode", "args": [{"opmode": 99}, 50, x],
                                  "span": {"guard": bad, "documented": bad, "decode": False, "detail": det}})
        for sid in ("no_such_setting", "grid_export_limi", "GRID_EXPORT_LIMIT", "vpv1x", ""):
            calls.append({"api": "write_setting", "args": [sid, 1],
                          "span": {"guard": True, "documented": True, "decode": False, "detail": {"arg": sid}}})
            calls.append({"api": "read_setting", "args": [sid], "span": {"decode": False, "pair": False}})
        progs.append({"inv": [{"family": fam, "port": port, "sim": sim, "retries": 0}], "calls": calls})
    # the monitoring API over device states: work mode x content of the first eco-mode group x value of unset registers
    from .checks_shuffle import obj_spec
    from .checks_modes import V1_PRIORS, V2_PRIORS
    names = ["et205", "et745tcp", "es_v1", "es_v2", "dt3"]
    for name in names:
        fam = {"et": "ET", "es": "ES", "dt": "DT"}[name[:2]]
        priors = list(V1_PRIORS if name == "es_v1" else V2_PRIORS) + ["ff"]
        if fam == "DT":
            priors = ["zeros"]
        for prior in priors:
            for wm in ((0, 3) if (quick and prior in ("zeros", "off", "partial")) else range(0, 7)):
                for default in ((0,) if (quick and wm not in (0, 3)) else (0, 0xFFFF)):
                    spec = obj_spec(name, rnd, prior if prior != "ff" else "zeros")
                    regs = spec["sim"]["regs"]
                    if prior == "ff":
                        for g in (47547, 47515, 1793):
                            for i in range(6):
                                regs[g + i] = 0xFFFF
                    regs[47000] = wm
                    regs[0x0550 + 33] = wm << 8 | wm          # ES: settings byte 66 (and its neighbour)
                    spec["sim"]["default"] = default
                    calls = [{"api": "read_device_info"}]
                    if fam != "DT":
                        calls += [{"api": "get_operation_mode"}, {"api": "get_ongrid_battery_dod"},
                                  {"api": "read_setting", "args": ["eco_mode_1"], "span": {"decode": False, "pair": False}}]
                    calls += [{"api": "get_grid_export_limit"}, {"api": "read_settings_data", "span": {"decode": False}},
                              {"api": "read_runtime_data", "span": {"decode": False}}]
                    if fam != "DT":
                        calls += [{"api": "get_operation_mode"}]
                    for c in calls:
                        c.setdefault("span", {"decode": False})
                        c["span"]["detail"] = {"state": f"{name} work_mode={wm} eco1={prior} unset={default:#x}"}
                    progs.append({"inv": [spec], "calls": calls})
    # a setting whose registers the inverter refuses disappears from settings(): from then on its id is an unknown id
    for tag, port, ranges in (("ETU", 8899, [[45350, 45360], [47510, 47514]]), ("ETT", 502, [[47589, 47594], [45350, 45360]]),
                              ("EHU", 8899, [[45000, 46999]]), ("ETU", 8899, [[47500, 47999]])):
        sim = {"regs": device_regs("ET", serial_for(tag), 10000), "refused": ranges}
        sim["regs"].update({47000: 1})
        calls = [{"api": "read_device_info"}, {"api": "read_settings_data", "span": {"decode": False}},
                 {"api": "get_grid_export_limit"}, {"api": "get_ongrid_battery_dod"}, {"api": "HIDDENWRITES"},
                 {"api": "read_settings_data", "span": {"decode": False}}]
        progs.append({"inv": [{"family": "ET", "port": port, "sim": sim, "retries": 0}], "calls": calls})
    # ... and ids that were never listed because their registers were refused / never answered while read_device_info probed
    for tag, port, key, ranges in (("ETU", 8899, "refused", [[47547, 47552], [47589, 47594]]), ("ETU", 8899, "silent", [[47547, 47552]]),
                                   ("ETT", 502, "silent", [[47589, 47594]]), ("EHU", 8899, "silent", [[47547, 47552], [47589, 47594]]),
                                   ("ETT", 8899, "refused", [[47547, 47552]])):
        sim = {"regs": device_regs("ET", serial_for(tag), 10000), key: ranges}
        calls = [{"api": "read_device_info"}, {"api": "UNLISTEDWRITES"}, {"api": "read_settings_data", "span": {"decode": False}}]
        progs.append({"inv": [{"family": "ET", "port": port, "sim": sim, "retries": 0}], "calls": calls})
    # connect / discover are monitoring calls too
    for fam, tag in (("ET", "ETU"), ("DT", "DTU"), ("ES", "ESU")):
        serial = serial_for(tag)
        sim = {"regs": device_regs(fam, serial, 10000), "aa55": {"info": list(es_info(serial))}}
        progs.append({"inv": [{"family": None, "sim": sim}],
                      "calls": [{"api": "goodwe.connect", "args": ["inv0"], "kw": {"family": fam, "retries": 0}}]})
        progs.append({"inv": [{"family": None, "sim": sim}],
                      "calls": [{"api": "goodwe.discover", "args": ["inv0"], "kw": {"retries": 0}}]})
    return progs


RULE = ("programs of public calls on simulated inverters; C14/C15: every model-tag class x rated-power class x subset of refusable "
        "blocks x battery presence sequence over three calls; C16: bulk read then read_sensor(id) for every listed id, also with the "
        "first single read issued before a capability change; C18: the monitoring API of every family and setters called with every "
        "integer around their valid interval; each call is a span judged by TraceDecode.tla from the recorded wire bytes; non-trivial = "
        "the span transmitted at least one request; distinct = distinct (program, call)")


def check(prop: str, tier: str, seed: int) -> int:
    run = Run(prop, tier, seed, "model_checking")
    run.cov["rule"] = RULE
    run.assumptions = ["the simulated inverter answers read requests from a register file and refuses the configured address ranges with "
                       "exception 2 (every served response is in the trace and is re-derived inside TLC by Wire.tla)",
                       "sensor tables are exported from the live objects right after each call",
                       "TLC, SANY and the CommunityModules are trusted"]
    rnd = random.Random(seed)
    own = (prop + ".",)
    from . import checks_model
    checks_model.run_inverter_model(run, prop, tier)
    if prop in ("C14", "C15"):
        progs = gen_config_programs(tier, rnd)
        n = 0
        CH = 4000                       # bounded memory: run, judge, compare, discard
        for c0 in range(0, len(progs), CH):
            part = progs[c0:c0 + CH]
            traces = engine.parallel_map("harness.checks_decode", "run_program_values", part, procs=16, chunk=8)
            for tr in traces:
                if tr["status"] != "ok":
                    raise engine.MachineryError("program did not finish: " + tr["status"])
            n += judge_spans(run, traces, own, batch_spans=1200)
            checks_model.compare_predictions(run, part, traces)
            del traces
        if prop == "C14":
            # single reads decode from an answer too: read_sensor(id) for every listed id (the programs of C16), judged
            # by the C14 clauses (what the decoder takes out of the answer lies inside it)
            sprogs = gen_single_programs(tier, rnd)
            traces = engine.parallel_map("harness.checks_inverter", "run_single_program", sprogs, procs=16, chunk=1)
            for tr in traces:
                if tr["status"] != "ok":
                    raise engine.MachineryError("program did not finish: " + tr["status"])
            n += judge_spans(run, traces, own, batch_spans=400)
            del traces
        run.cov["distinct_nontrivial"] += n
        run.cov["samples"].append({"program_cfg": progs[len(progs) // 2].get("cfg", {}),
                                   "calls": [c.get("api", "sim") for c in progs[len(progs) // 2]["calls"]][:12]})
        return run.finish()
    elif prop == "C16":
        progs = gen_single_programs(tier, rnd)
        traces = engine.parallel_map("harness.checks_inverter", "run_single_program", progs, procs=16, chunk=1)
    else:
        # + the monitoring calls over the register contents of the decoding checks (boundary / directed / random fills of every
        # polled block, the inverter's clock over its whole range): what a monitoring call transmits must not depend on what it reads
        from .checks_decode import gen_span_programs
        sp = gen_span_programs(tier, rnd)
        for p_ in sp:
            for c in p_["calls"]:
                if "api" in c:
                    c.setdefault("span", {})["decode"] = False
        progs = gen_readonly_programs(tier, rnd) + gen_config_programs("quick", rnd)[:: (40 if tier == "quick" else 4)] + sp
        traces = engine.parallel_map("harness.checks_inverter", "run_readonly_program", progs, procs=16, chunk=2)
    for tr in traces:
        if tr["status"] != "ok":
            raise engine.MachineryError("program did not finish: " + tr["status"])
    n = judge_spans(run, traces, own, batch_spans=400)
    run.cov["distinct_nontrivial"] += n
    run.cov["samples"].append({"program_cfg": progs[len(progs) // 2].get("cfg", {}),
                               "calls": [c.get("api", "sim") for c in progs[len(progs) // 2]["calls"]][:12]})
    if prop in ("C14", "C15"):
        checks_model.compare_predictions(run, progs, traces)
    return run.finish()
