"""C11 C12 C13: the decoding layer (sensor types, addressing, derived sensors) judged against Decode.tla.

Two bindings:
  (T) spec -> code tables: TLC evaluates Decode for a complete sweep of a 16-bit word inside a sensor's own
      bytes (ExportDecode.tla); every word is planted into a response that the real sensor class decodes.
  (S) code -> spec spans: public calls (read_runtime_data, read_settings_data, read_sensor, read_setting) on
      simulated inverters over the real wire path; TraceDecode.tla locates every sensor's own bytes in the
      recorded responses and judges values, keys, labels, bitmaps and computed sensors.
"""
from __future__ import annotations

import json
import os
import random
import sys

sys.path.insert(0, os.environ.get("VERIF_REPO", "/repo"))

from . import engine, frames as F, tlc  # noqa: E402
from .engine import Run  # noqa: E402
from .tables import KNOWN_TYPES, TableSet, entry, listing  # noqa: E402

SIZE = {"Voltage": 2, "Current": 2, "CurrentS": 2, "Frequency": 2, "Power": 2, "PowerS": 2, "Energy": 2, "Apparent": 2,
        "Reactive": 2, "Temp": 2, "CellVoltage": 2, "Integer": 2, "IntegerS": 2, "Decimal": 2, "Enum2": 2, "Byte": 1,
        "ByteH": 1, "Enum": 1, "EnumH": 1, "ByteL": 2, "EnumL": 2, "Power4": 4, "Power4S": 4, "Energy4": 4, "Energy4W": 4,
        "Apparent4": 4, "Reactive4": 4, "Long": 4, "LongS": 4, "Float": 4, "EnumBitmap4": 4, "Timestamp": 6, "Energy8": 8,
        "EcoModeV1": 8, "EcoModeV2": 12, "Schedule": 12, "PeakShavingMode": 12}

VALID_BASE = {
    "Timestamp": bytes([23, 6, 15, 12, 30, 45]),
    "EcoModeV1": bytes.fromhex("0d1e0e28ffc4ff1a"),
    "EcoModeV2": bytes.fromhex("0000173bff7fffce00640000"),
    "Schedule": bytes.fromhex("0000173bff7fffce00640000"),
    "PeakShavingMode": bytes.fromhex("0000173bfc7f006400640000"),
}

SERIALS = {
    "ET": [("9010KETU000W0000", 10000), ("95000EHU00000000", 5000), ("9010KETT000W0000", 10000),
           ("929K9ETF000W0000", 29900), ("9010KHSB000W0000", 10000), ("9025KETT00W00000", 25000), ("9015KETU000W0000", 15000)],
    "DT": [("9010KDTU000W0000", 0), ("95000DSN000W0000", 0), ("910KMSU0000W0000", 0)],
    "ES": [("95048ESU000W0000", 0)],
}


# ------------------------------------------------------------------------------------------------
# values
# ------------------------------------------------------------------------------------------------
def limbs(n: int) -> list[int]:
    out = []
    while n:
        out.append(n & 0xFFFF)
        n >>= 16
    out.reverse()
    return out or [0]


def val(v) -> dict:
    """Projection of a decoded Python value to the value records of Decode.tla."""
    import datetime
    if v is None:
        return {"k": "none", "a": [], "s": ""}
    if isinstance(v, bool):
        return {"k": "bool", "a": [int(v)], "s": ""}
    if isinstance(v, int):
        return {"k": "num", "a": [1, 1 if v < 0 else 0] + limbs(abs(v)), "s": ""}
    if isinstance(v, float):
        if v != v:
            return {"k": "nan", "a": [], "s": ""}
        if v in (float("inf"), float("-inf")):
            return {"k": "inf", "a": [], "s": ""}
        import math
        from fractions import Fraction
        fv = Fraction(v)
        tol = 4 * Fraction(math.ulp(v))
        coarse = math.ulp(v) >= 0.0005          # the float no longer determines three decimals
        for d in (1, 10, 100, 1000):
            n = round(fv * d)
            if abs(fv - Fraction(n, d)) <= tol:
                out = {"k": "num", "a": [d, 1 if n < 0 else 0] + limbs(abs(n)), "s": "", "f": v}
                if coarse:
                    out["coarse"] = True
                return out
        return {"k": "inexact", "a": [], "s": repr(v)}
    if isinstance(v, str):
        return {"k": "str", "a": [], "s": v}
    if isinstance(v, datetime.datetime):
        return {"k": "dt", "a": [v.year, v.month, v.day, v.hour, v.minute, v.second], "s": ""}
    if hasattr(v, "start_h") and hasattr(v, "day_bits"):
        v2 = hasattr(v, "month_bits")
        a = [v.start_h, v.start_m, v.end_h, v.end_m, v.power, v.on_off, v.day_bits,
             v.soc if v2 else 100, v.month_bits if v2 else 0, int(v.schedule_type) if v2 else 0]
        if any(not isinstance(x, int) for x in a):
            return {"k": "ecobad", "a": [], "s": repr(a)}
        return {"k": "eco", "a": a, "s": (v.days or "") + "|" + ((v.months or "") if v2 else "")}
    return {"k": "obj", "a": [], "s": type(v).__name__}


def close_enough(want: dict, got_float: float) -> bool:
    """The returned float is the expected rational up to the rounding of one float division (<= 1 ulp)."""
    import math
    from fractions import Fraction
    m = 0
    for lb in want["a"][2:]:
        m = m * 65536 + lb
    exp = Fraction(-m if want["a"][1] else m, want["a"][0])
    return abs(Fraction(got_float) - exp) <= 2 * Fraction(math.ulp(float(exp)))


def num_eq(x: dict, y: dict) -> bool:
    def n(z):
        m = 0
        for lb in z["a"][2:]:
            m = m * 65536 + lb
        return (-m if z["a"][1] else m), z["a"][0]
    a, da = n(x)
    b, db = n(y)
    return a * db == b * da


def val_eq(x: dict, y: dict) -> bool:
    """x: expected (from the specification), y: observed"""
    if x["k"] == "num" and y["k"] == "num":
        if y.get("coarse"):
            return close_enough(x, y["f"])
        return num_eq(x, y)
    return x["k"] == y["k"] and list(x["a"]) == list(y["a"]) and x["s"] == y["s"]


# ------------------------------------------------------------------------------------------------
# (T) table sweeps
# ------------------------------------------------------------------------------------------------
def all_sensor_groups():
    """(family, table name, framing, sensors) of every class-level table of the three families."""
    from goodwe.et import ET
    from goodwe.dt import DT
    from goodwe.es import ES
    out = []
    for cls, fam in ((ET, "ET"), (DT, "DT"), (ES, "ES")):
        for name in sorted(vars(cls)):
            v = getattr(cls, name)
            if isinstance(v, tuple) and v and hasattr(v[0], "id_"):
                short = name.split("__")[-1]
                aa55 = fam == "ES" and short in ("sensors", "all_settings")
                out.append((fam, short, "aa55" if aa55 else "rtu", list(v)))
    return out


def signature(e: dict) -> tuple:
    return (e["ty"], e["scale"], json.dumps(e["labels"]))


_cmd_cache: dict = {}
_AA55_RT = None


def make_response(fr: str, e: dict, own: bytes, rnd: random.Random, own2: bytes | None = None):
    global _AA55_RT
    """A response of the right framing that contains `own` at the sensor's address, random elsewhere."""
    from goodwe.protocol import Aa55ProtocolCommand, ModbusRtuReadCommand, ProtocolResponse
    if _AA55_RT is None:
        _AA55_RT = Aa55ProtocolCommand("010600", "0186")
    if fr == "aa55" and e["addr"] < 1000:
        total = max(e["addr"] + len(own) + rnd.randint(0, 6), 12)
        pl = bytearray(rnd.randbytes(total))
        pl[e["addr"]:e["addr"] + len(own)] = own
        # ProtocolResponse does not validate: header and checksum bytes are placeholders of the right length
        return ProtocolResponse(b"\xaa\x55\x7f\xc0\x01\x86" + bytes([len(pl) & 0xFF]) + bytes(pl[:255]) + b"\x00\x00", _AA55_RT)
    regs = (len(own) + 1) // 2
    lo = e["addr"]
    hi = e["addr"] + regs
    if own2 is not None:
        lo = min(lo, e["addrL"])
        hi = max(hi, e["addrL"] + 1)
    first = max(0, lo - rnd.randint(0, 3))
    count = hi - first + rnd.randint(0, 3)
    pl = bytearray(rnd.randbytes(2 * count))
    p = (e["addr"] - first) * 2
    pl[p:p + len(own)] = own
    if own2 is not None:
        p2 = (e["addrL"] - first) * 2
        pl[p2:p2 + 2] = own2
    cmd = _cmd_cache.get((first, count))
    if cmd is None:
        cmd = _cmd_cache[(first, count)] = ModbusRtuReadCommand(0xF7, first, count)
    return ProtocolResponse(b"\xaa\x55\xf7\x03" + bytes([(2 * count) & 0xFF]) + bytes(pl) + b"\x00\x00", cmd)


STATEFUL = {"EcoModeV1", "EcoModeV2", "PeakShavingMode", "Schedule"}
_PRISTINE: dict = {}


def sweep_job(args) -> dict:
    """Real side of one table job: plant all 65536 words, decode with the real sensor object, compare."""
    fam, tabname, fr, idx, base, pos, table_path, seed, step = args
    rnd = random.Random(seed)
    groups = {(g[0], g[1]): g for g in all_sensor_groups()}
    s = groups[(fam, tabname)][3][idx]
    e = entry(s)
    with open(table_path) as f:
        table = json.load(f)
    bad = []
    n = 0
    raised = {}
    # group sensors keep the fields of their last decode on the object: every word is also decoded by a copy of the object
    # as it was before its first decode in this process (a decode must not depend on what the object decoded before)
    import copy
    pristine = _PRISTINE.setdefault((fam, tabname, idx), copy.deepcopy(s)) if e["ty"] in STATEFUL else None
    for w in range(0, 65536, step):
        own = bytearray(base)
        if e["ty"] == "EnumBitmap22":
            hb = bytes(own[0:2])
            lb = bytes(own[2:4])
            if pos == 1:
                hb = w.to_bytes(2, "big")
            else:
                lb = w.to_bytes(2, "big")
            resp = make_response(fr, e, hb, rnd, lb)
        else:
            own[pos - 1:pos + 1] = w.to_bytes(2, "big")
            resp = make_response(fr, e, bytes(own), rnd)
        try:
            got = val(s.read(resp))
            if pristine is not None:
                resp2 = copy.copy(resp)
                try:
                    import io
                    for k_, v_ in vars(resp2).items():
                        if isinstance(v_, io.BytesIO):
                            setattr(resp2, k_, io.BytesIO(v_.getvalue()))
                except Exception:  # noqa
                    pass
                try:
                    got2 = val(copy.deepcopy(pristine).read(resp2))
                except ValueError:
                    got2 = {"k": "none", "a": [], "s": ""}
                if not val_eq(got, got2) and len(bad) < 5:
                    bad.append({"w": w, "clause": "C12.Value", "want": got, "got": got2, "note": "fresh object decodes differently"})
        except ValueError:
            got = {"k": "none", "a": [], "s": ""}
            if pristine is not None:
                try:
                    copy.deepcopy(pristine).read(make_response(fr, e, bytes(own), rnd) if e["ty"] != "EnumBitmap22" else resp)
                except ValueError:
                    pass
                except Exception as ex:  # noqa
                    raised[type(ex).__name__] = raised.get(type(ex).__name__, 0) + 1
                    if len(bad) < 5:
                        bad.append({"w": w, "clause": "C11.Total", "exc": type(ex).__name__, "note": "fresh object"})
                    continue
        except Exception as ex:  # noqa
            raised[type(ex).__name__] = raised.get(type(ex).__name__, 0) + 1
            if len(bad) < 5:
                bad.append({"w": w, "clause": "C11.Total", "exc": type(ex).__name__})
            continue
        n += 1
        want = table[w]
        if want["k"] == "undecided":
            continue
        if not val_eq(want, got):
            clause = "C11.UndecodableIsNone" if want["k"] == "none" else ("C13.Bitmap" if e["ty"] == "EnumBitmap22" else "C12.Value")
            if e["ty"] == "EnumBitmap22":
                # the known precedence defect ('h << 16 + l') is told apart from any other wrong reading
                from goodwe.sensor import decode_bitmap
                h = int.from_bytes(hb, "big") if hb != b"\xff\xff" else 0
                lw = int.from_bytes(lb, "big") if lb != b"\xff\xff" else 0
                if got == val(decode_bitmap(h << (16 + lw), s._labels)):
                    clause = "C13.Bitmap22Precedence"
            if len(bad) < 5 or (len(bad) < 40 and clause not in {b["clause"] for b in bad}):
                bad.append({"w": w, "clause": clause, "want": want, "got": got})
            raised[clause] = raised.get(clause, 0) + 1
            if clause == "C11.UndecodableIsNone" and got["k"] != "none":
                # a value reported where the documented reading is "no value" is also not the documented reading of the
                # sensor's registers (C12), not only a missing None (C11)
                if "C12.Value" not in {b["clause"] for b in bad}:
                    bad.append({"w": w, "clause": "C12.Value", "want": want, "got": got})
                raised["C12.Value"] = raised.get("C12.Value", 0) + 1
    return {"fam": fam, "tab": tabname, "id": e["id"], "ty": e["ty"], "pos": pos, "n": n, "bad": bad, "counts": raised,
            "base": list(base)}


UNJUDGED: set[str] = set()


def plan_sweeps(tier: str, rnd: random.Random):
    """Jobs for TLC (one per distinct type signature x word position x base) and the sensors they apply to."""
    quick = tier == "quick"
    sig_jobs: dict[tuple, int] = {}
    jobs = []
    labels_ts = TableSet()
    work = []
    seen_sig_fam = set()
    for fam, tabname, fr, sensors in all_sensor_groups():
        for idx, s in enumerate(sensors):
            e = entry(s)
            ty = e["ty"]
            if ty in ("Calculated", "EnumCalculated"):
                continue
            if ty not in KNOWN_TYPES:
                UNJUDGED.add(f"{fam}.{e['id']}:{ty}")
                continue
            if quick and (fam, signature(e)) in seen_sig_fam:
                continue
            seen_sig_fam.add((fam, signature(e)))
            if ty == "EnumBitmap22":
                bases = [bytes(4), bytes([0xFF, 0xFF, 0, 1]), bytes([0x12, 0x34, 0x80, 0x01])]
                positions = [1, 3]
                size = 4
            else:
                size = SIZE[ty]
                nb = size if size > 1 else 2
                if ty in VALID_BASE:
                    bases = [VALID_BASE[ty]]
                elif nb == 2:
                    bases = [bytes(2)]
                else:
                    bases = [bytes(nb), b"\xff" * nb, bytes([0x80] + [0] * (nb - 1))]
                if ty == "Float":
                    # IEEE-754 singles: sweeping one word of 0.0 gives few interesting values; further bases 1001.0 (fractions
                    # of a Wh in the low word, small exponents in the high word), -20000.5 and 1e6
                    bases += [bytes.fromhex("447a4000"), bytes.fromhex("c69c4100"), bytes.fromhex("49742400")]
                positions = list(range(1, nb, 2))
            for bi, base in enumerate(bases):
                for pos in positions:
                    if quick and bi > 0 and not (bi == 1 and pos == positions[-1]) and not (ty == "Float" and bi >= 3):
                        continue        # quick tier: zero base everywhere, 0xFF base only for the last word (sentinel)
                    key = (signature(e), bytes(base), pos)
                    if key not in sig_jobs:
                        sig_jobs[key] = len(jobs)
                        jobs.append({"ty": ty, "scale": e["scale"], "lab": labels_ts.lab(e["labels"]), "base": list(base),
                                     "pos": pos, "out": ""})
                    work.append((fam, tabname, fr, idx, bytes(base), pos, sig_jobs[key]))
    return jobs, labels_ts.labels, work


def run_sweeps(run: Run, tier: str, rnd: random.Random, own: tuple[str, ...]) -> None:
    jobs, labels, work = plan_sweeps(tier, rnd)
    if UNJUDGED:
        run.notes.append("NOT JUDGED (sensor classes without a documented meaning in spec/Decode.tla; their values are outside "
                         "the specification, keys / windows are still checked): " + ", ".join(sorted(UNJUDGED))[:600])
    d = os.path.join(run.workdir, "tables")
    os.makedirs(d, exist_ok=True)
    for k, j in enumerate(jobs):
        j["out"] = os.path.join(d, f"t{k}.json")
    jp = os.path.join(d, "jobs.json")
    tlc.write_json(jp, {"jobs": jobs, "labels": labels})
    r = tlc.run_tlc("ExportDecode", env={"VERIF_JOBS": jp}, workers=16, timeout=3000, heap="12g")
    if not r["ok"]:
        raise engine.MachineryError("ExportDecode failed\n" + r["stdout"][-3000:])
    run.cov["states"] += r.get("distinct", 0)
    run.cov["transitions"] += r.get("generated", 0)
    run.cov["tables_generated_by_tlc"] = len(jobs)
    step = 1
    args = [(fam, tab, fr, idx, base, pos, jobs[jk]["out"], run.seed * 7919 + n, step)
            for n, (fam, tab, fr, idx, base, pos, jk) in enumerate(work)]
    res = engine.parallel_map("harness.checks_decode", "sweep_job", args, procs=16, chunk=4)
    total = 0
    for x in res:
        total += x["n"]
        run.cov["evaluations"] += 65536 // step
        for b in x["bad"]:
            if b["clause"].startswith(own):
                detail = {"family": x["fam"], "table": x["tab"], "sensor": x["id"], "type": x["ty"]}
                run.violation(b["clause"], detail, {"sweep": {"fam": x["fam"], "tab": x["tab"], "id": x["id"], "pos": x["pos"],
                                                              "base": x["base"], "w": b["w"], "case": b}})
    run.cov["families"]["sweep_sensors"] = len(work)
    run.cov["distinct_nontrivial"] += total
    if res:
        run.cov["samples"].append({"sweep": {k: v for k, v in res[len(res) // 2].items() if k != "bad"}})
    for k, j in enumerate(jobs):
        try:
            os.remove(j["out"])
        except OSError:
            pass


# ------------------------------------------------------------------------------------------------
# (S) spans over the wire
# ------------------------------------------------------------------------------------------------
def device_regs(fam: str, serial: str, rated: int) -> dict[int, int]:
    sn = serial.encode("ascii")
    regs = {}
    if fam == "ET":
        for i in range(8):
            regs[35003 + i] = int.from_bytes(sn[2 * i:2 * i + 2], "big")
        regs[35001] = rated
        # one model name for every tag (the vendor reuses model names across hardware platforms): registers 35011..35015
        mn = b"GW10K-ET  "
        for i in range(5):
            regs[35011 + i] = int.from_bytes(mn[2 * i:2 * i + 2], "big")
    elif fam == "DT":
        for i in range(8):
            regs[30004 + i] = int.from_bytes(sn[2 * i:2 * i + 2], "big")   # response bytes 6..22 -> 30001+3
        mn = b"GW10K-DT  "
        for i in range(5):
            regs[30012 + i] = int.from_bytes(mn[2 * i:2 * i + 2], "big")   # response bytes 22..32
    return regs


def es_info(serial: str, fw: str = "1414B") -> bytes:
    b = bytearray(64)
    b[0:5] = fw.encode()
    b[5:15] = b"GW5048-ESA"
    b[31:47] = serial.encode()
    b[51:63] = b"360.000.12  "
    return bytes(b)


BLOCKS = {"ET": [(35100, 125), (37000, 24), (39000, 22), (36000, 125), (35301, 61)],
          "DT": [(30100, 73), (30195, 15)]}


def fill_regs(fam: str, rnd: random.Random, mode: str, tabs: list) -> dict[int, int]:
    regs = {}
    for first, count in BLOCKS.get(fam, []):
        for a in range(first, first + count + 4):
            if mode == "zero":
                v = 0
            elif mode == "ff":
                v = 0xFFFF
            elif mode == "7f":
                v = 0x7FFF
            elif mode == "80":
                v = 0x8000
            elif mode == "small":
                v = rnd.choice([0, 1, 2, 3, 50, 100, 255, 256, 1000, 2300, 2405, 65535, 65534, 32768])
            else:
                v = rnd.randrange(65536)
            regs[a] = v
    return regs


def directed_fills(fam: str, rnd: random.Random) -> list[dict]:
    """Register contents at the boundaries of the derived-sensor definitions (thresholds, rounding ties, sign switches)."""
    out = []
    if fam == "ET":
        for ap in (-32768, -91, -90, -89, -1, 0, 1, 89, 90, 91, 32767):
            regs = fill_regs(fam, rnd, "random", [])
            regs[35140] = ap & 0xFFFF
            regs[35184] = 1
            out.append({"set": {str(k): v for k, v in regs.items()}})
        for hi in (0, 0x7FFF, 0x8000, 0xFFFF):
            regs = fill_regs(fam, rnd, "small", [])
            for a in (35105, 35109, 35113, 35117, 35182):
                regs[a] = hi
                regs[a + 1] = rnd.choice([0, 1, 0xFFFF, 0xFFFE])
            out.append({"set": {str(k): v for k, v in regs.items()}})
    elif fam == "DT":
        ties = [(5, 10), (15, 10), (25, 30), (1, 50), (3, 50), (65534, 65534), (65535, 100), (100, 65535), (0, 7), (2405, 133)]
        for k in range(0, len(ties), 2):
            regs = fill_regs(fam, rnd, "random", [])
            (a, b), (c, d) = ties[k], ties[k + 1]
            regs.update({30103: a, 30104: b, 30105: c, 30106: d, 30107: b, 30108: a, 30118: a, 30121: b, 30119: c, 30122: d,
                         30120: d, 30123: c})
            out.append({"set": {str(k2): v for k2, v in regs.items()}})
    if fam in ("ET", "DT"):
        # the inverter's clock (first three registers of the running block): valid dates over the whole year range
        # (a clock that restarted at 2000-01-01, the turn of 2010, the years with the top bit set) and invalid ones
        t0 = 35100 if fam == "ET" else 30100
        for y, mo, d, h, mi, sec in ((0, 1, 1, 0, 3, 17), (9, 12, 31, 23, 59, 59), (10, 1, 1, 0, 0, 0), (24, 2, 29, 12, 0, 0),
                                     (99, 12, 31, 23, 59, 59), (127, 6, 15, 1, 2, 3), (128, 2, 29, 4, 5, 6), (255, 12, 31, 23, 59, 59),
                                     (24, 13, 1, 0, 0, 0), (24, 2, 30, 0, 0, 0), (24, 1, 1, 24, 0, 0)):
            regs = fill_regs(fam, rnd, "random", [])
            regs.update({t0: y << 8 | mo, t0 + 1: d << 8 | h, t0 + 2: mi << 8 | sec})
            out.append({"set": {str(k): v for k, v in regs.items()}})
    if fam == "ES":
        for bm in (0, 1, 2, 3, 4, 0xFF):
            for gio in (0, 1, 2, 3):
                rt = bytearray(rnd.randrange(256) for _ in range(149))
                rt[30] = bm
                rt[80] = gio
                # the PV strings' mode bytes over their codes, next to non-zero voltage x current
                rt[4] = (0, 1, 2, 3, 0xFF, 1)[(bm + gio) % 6]
                rt[9] = (1, 0, 2, 1, 3, 0xFF)[(bm + 2 * gio) % 6]
                rt[5:7] = (2405).to_bytes(2, "big")
                rt[7:9] = (133).to_bytes(2, "big")
                rt[38:40] = rnd.choice([0, 1, 89, 90, 91, 0x7FFF, 0x8000, 0xFFA6, 0xFFA5, 0xFFFF]).to_bytes(2, "big")
                rt[0:2] = rnd.choice([5, 15, 2405, 0xFFFF, 0]).to_bytes(2, "big")
                rt[2:4] = rnd.choice([10, 30, 133, 0xFFFF, 0]).to_bytes(2, "big")
                out.append({"aa55": {"runtime": list(rt)}})
    return out


def program(fam: str, serial: str, rated: int, port: int, fills: list[dict], extra_calls=None, refused=None,
            es_fw: str = "1414B") -> dict:
    sim = {"regs": device_regs(fam, serial, rated), "refused": refused or []}
    if fam == "ES":
        sim["aa55"] = {"info": list(es_info(serial, es_fw))}
    calls = [{"api": "read_device_info"}]
    for fill in fills:
        calls.append({"sim": fill})
        calls.append({"api": "read_runtime_data"})
        calls.append({"api": "table:sensors"})
    calls += extra_calls or []
    return {"inv": [{"family": fam, "port": port, "sim": sim, "retries": 0}], "calls": calls}


def gen_span_programs(tier: str, rnd: random.Random) -> list[dict]:
    quick = tier == "quick"
    progs = []
    modes = ["zero", "ff", "7f", "80", "small"] + ["random"] * (6 if quick else 40)
    for fam in ("ET", "DT", "ES"):
        for serial, rated in SERIALS[fam]:      # one serial per model-predicate class (phases, platform, MPPT count, batteries)
            first = (serial, rated) == SERIALS[fam][0]
            for port in ((8899,) if fam == "ES" or (quick and not first) else (8899, 502)):
                fills = []
                for m in modes:
                    if fam == "ES":
                        if m == "zero":
                            rt = bytes(149)
                        elif m == "ff":
                            rt = b"\xff" * 149
                        elif m == "7f":
                            rt = b"\x7f\xff" * 75
                        elif m == "80":
                            rt = b"\x80\x00" * 75
                        else:
                            rt = bytes(rnd.randrange(256) for _ in range(rnd.choice([149, 149, 149, 120, 100, 255, 93])))
                        srt = {"aa55": {"runtime": list(rt)}}
                        if m in ("random", "small"):
                            srt["set"] = {str(0x0550 + i): rnd.randrange(65536) for i in range(44)}
                        fills.append(srt)
                    else:
                        regs = fill_regs(fam, rnd, m, [])
                        # keep the battery present in most reads so that the battery block is fetched
                        if fam == "ET" and m == "random" and rnd.random() < 0.7:
                            regs[35184] = rnd.choice([1, 2, 3, 4])
                        fills.append({"set": {str(k): v for k, v in regs.items()}})
                fills += directed_fills(fam, rnd)
                extra = []
                if fam in ("ET", "ES"):
                    extra += [{"api": "read_settings_data"}, {"api": "table:settings"}]
                progs.append(program(fam, serial, rated, port, fills, extra))
                if port == 502 and (first or not quick):
                    # Modbus/TCP answers whose MBAP length field is not what the frame holds (the validator ignores the field)
                    for mb in ("bytecount", "six", "zero", "max"):
                        pm = program(fam, serial, rated, port, fills[:3] + fills[-4:], extra)
                        pm["mbap"] = mb
                        progs.append(pm)
    # ES blocks "of any announced length": every length of the runtime block 0..160 and of the settings block 0..100
    # (an answer may end in the middle of a field), two firmwares, random / 0xFF content
    serial = SERIALS["ES"][0][0]
    for fw in ("1414B", "2224E"):
        lens = list(range(0, 161)) if (not quick or fw == "1414B") else list(range(0, 161, 7))
        for chunk in range(0, len(lens), 16):
            fills = []
            for ln in lens[chunk:chunk + 16]:
                pat = bytes(rnd.randrange(256) for _ in range(ln)) if ln % 3 else b"\xff" * ln
                fills.append({"aa55": {"runtime": list(pat)}})
            progs.append(program("ES", serial, 0, 8899, fills, [], es_fw=fw))
        for sl in (range(0, 101) if (not quick or fw == "1414B") else range(0, 101, 5)):
            p = program("ES", serial, 0, 8899, [], [{"api": "read_settings_data"}, {"api": "table:settings"}], es_fw=fw)
            p["inv"][0]["sim"]["aa55"]["settings_len"] = sl
            p["inv"][0]["sim"]["regs"].update({0x0550 + i: rnd.randrange(65536) for i in range(52)})
            progs.append(p)
    return progs


ABSENT = {"k": "absent", "a": [], "s": ""}
READ_ONLY_APIS = {"read_device_info", "read_runtime_data", "read_sensor", "read_setting", "read_settings_data",
                  "get_grid_export_limit", "get_operation_mode", "get_operation_modes", "get_ongrid_battery_dod",
                  "goodwe.connect", "goodwe.discover", "goodwe.search_inverters"}


def extract_spans(trace: dict, ts: TableSet, frames: "FrameTab") -> list[dict]:
    """One span per public call.  Calls may carry an annotation {"span": {...}} set by the program generator
    (guard / documented / decode); read-only-ness follows from the API name (the list of C18)."""
    prog = trace["prog"]
    fam = prog["inv"][0].get("family") or "ET"
    fr = "tcp" if prog["inv"][0].get("port", 8899) == 502 else "rtu"
    calls = {i: c for i, c in enumerate(prog.get("calls", []))}
    spans = []
    cur = None
    pending = None
    last_bulk = {}        # api kind -> span (waiting for its table)
    last_res = {}         # "runtime"/"settings" -> (res dict, table listing)
    prev_failed = False
    last_write = None
    tables = {}           # "sensors"/"settings" -> latest listing
    for ev in trace["ev"]:
        e = ev["e"]
        if e == "CALL":
            cur = {"api": ev["api"], "resp": [], "args": ev.get("args", []), "ci": ev.get("ci", -1), "short": []}
            pending = None
        elif e == "SHORT" and cur is not None:
            # the decoder asked an accepted answer for bytes it does not hold
            a = ev["first"] + ev["pos"] // 2 if ev.get("first", -1) >= 0 and ev["pos"] >= 0 else max(ev["pos"], 0)
            t = {"a": a, "n": ev["want"], "g": ev["got"]}
            if t not in cur["short"] and len(cur["short"]) < 8:
                cur["short"].append(t)
        elif e == "SEND" and cur is not None:
            if pending is not None:
                f = "aa55" if pending[:4] == b"\xaa\x55\xc0\x7f" else fr
                cur["resp"].append({"fr": f, "req": frames.fid(pending), "ans": 0})
            pending = ev["data"]
        elif e == "DLV" and cur is not None and pending is not None:
            req = pending
            f = "aa55" if req[:4] == b"\xaa\x55\xc0\x7f" else fr
            cur["resp"].append({"fr": f, "req": frames.fid(req), "ans": frames.fid(ev["data"])})
            pending = None
        elif e == "RET" and cur is not None:
            if pending is not None:
                f = "aa55" if pending[:4] == b"\xaa\x55\xc0\x7f" else fr
                cur["resp"].append({"fr": f, "req": frames.fid(pending), "ans": 0})
                pending = None
            api = ev["api"]
            ann = (calls.get(cur["ci"], {}) or {}).get("span", {})
            if api in ("table:sensors", "table:settings"):
                kind = "runtime" if api == "table:sensors" else "settings"
                tables[api[6:]] = ev["table"]
                sp = last_bulk.pop(kind, None)
                if sp is not None:
                    sp["tab"] = ts.tab(ev["table"])
                    sp["_listing"] = ev["table"]
                cur = None
                continue
            sp = {"fam": fam, "api": api, "call": api, "tab": 0, "tab0": 0, "entry": 0, "single": False, "resp": cur["resp"],
                  "ok": bool(ev.get("ok")), "exc": ev.get("exc", ""), "full": bool(ann.get("full", True)), "res": {},
                  "modbus": fam in ("ET", "DT"), "prevFailed": False, "ro": api in READ_ONLY_APIS,
                  "guard": bool(ann.get("guard", False)), "documented": bool(ann.get("documented", False)),
                  "bulk": ABSENT, "unknown": "nknown" in ev.get("msg", ""), "failed": bool(ev.get("failed", False)),
                  "decode": bool(ann.get("decode", True)), "_ann": ann, "wval": ABSENT, "rb": ABSENT, "bulkmiss": False,
                  "short": cur["short"]}
            if api in ("read_runtime_data", "read_settings_data"):
                kind = "runtime" if api == "read_runtime_data" else "settings"
                sp["api"] = kind
                if ev.get("ok") and "_raw" in ev:
                    sp["res"] = {k: val_from_proj(v) for k, v in ev["_raw"].items()}
                    last_res[kind] = sp
                if kind == "runtime":
                    sp["prevFailed"] = prev_failed
                    prev_failed = not ev.get("ok")
                    if tables.get("sensors"):
                        sp["tab0"] = ts.tab(tables["sensors"])      # the listing in force when the call was made
                last_bulk[kind] = sp
            elif api == "write_setting" and len(cur["args"]) >= 2:
                sid = cur["args"][0]
                lst = tables.get("settings")
                sp["decode"] = False
                idx = 0
                if lst:
                    for k, ent in enumerate(lst):
                        if ent["id"] == sid:
                            idx = k + 1
                    sp["tab"] = ts.tab(lst)
                sp["entry"] = idx
                sp["wval"] = arg_val(cur["args"][1])
                last_write = (sid, sp)
            elif api in ("read_sensor", "read_setting") and cur["args"]:
                sid = cur["args"][0]
                kind = "runtime" if api == "read_sensor" else "settings"
                lst = tables.get("sensors" if api == "read_sensor" else "settings")
                sp["single"] = True
                sp["api"] = "sensor" if api == "read_sensor" else "setting"
                idx = 0
                if lst:
                    for k, ent in enumerate(lst):
                        if ent["id"] == sid:
                            idx = k + 1
                    sp["tab"] = ts.tab(lst)
                sp["entry"] = idx
                if ev.get("ok") and "_single" in ev:
                    sp["res"] = {sid: val_from_proj(ev["_single"])}
                if api == "read_setting" and last_write is not None and last_write[0] == sid:
                    if ev.get("ok") and "_single" in ev:
                        last_write[1]["rb"] = val_from_proj(ev["_single"])
                    elif ev.get("exc") == "ValueError":
                        last_write[1]["rb"] = {"k": "none", "a": [], "s": ""}
                    last_write = None
                b = last_res.get(kind)
                if b is not None and ann.get("pair", True) and sid in b["res"]:
                    sp["bulk"] = b["res"][sid]
                elif b is not None and ann.get("pair", True) and api == "read_sensor" and idx != 0 and b.get("ok") and \
                        b.get("_listing") is not None and any(ent["id"] == sid for ent in b["_listing"]):
                    # listed right after the last successful bulk read, but that read reported no such key
                    sp["bulkmiss"] = True
                if idx == 0:
                    sp = None          # id not in a listing: nothing to judge against
            else:
                sp["decode"] = False
                if tables.get("sensors"):
                    sp["tab"] = ts.tab(tables["sensors"])
            if sp is not None:
                spans.append(sp)
            cur = None
    out = []
    for sp in spans:
        if sp["tab"] == 0:
            if sp["api"] in ("runtime", "settings") or sp["single"]:
                continue
            sp["tab"] = 1 if ts.tables else ts.tab([])
        out.append(sp)
    return out


def arg_val(a) -> dict:
    """Value record of a call argument as written in a program (numbers, {"bytes": [...]}, {"dt": [...]})."""
    import datetime
    if isinstance(a, dict) and "bytes" in a:
        return {"k": "bytes", "a": list(a["bytes"]), "s": ""}
    if isinstance(a, dict) and "dt" in a:
        return {"k": "dt", "a": list(a["dt"]), "s": ""}
    if isinstance(a, dict) and "frac" in a:       # exact decimal n/den handed to the library as float(n/den)
        n, d = a["frac"]
        return {"k": "num", "a": [d, 1 if n < 0 else 0] + limbs(abs(n)), "s": ""}
    v = val(a)
    return {"k": v["k"], "a": v["a"], "s": v["s"]}


def val_from_proj(v):
    """Value record as given to TLC: integers and strings only (no raw floats)."""
    if v.get("coarse"):
        return {"k": "coarse", "a": [], "s": ""}
    return {"k": v["k"], "a": v["a"], "s": v["s"]}


class FrameTab:
    def __init__(self):
        self.frames = []
        self.idx = {}

    def fid(self, b: bytes) -> int:
        b = bytes(b)
        if b not in self.idx:
            self.frames.append(list(b))
            self.idx[b] = len(self.frames)
        return self.idx[b]


def run_span_program(prog: dict) -> dict:
    """Runs the program; returns a compact trace with decoded values projected by val()."""
    from .inv_driver import run_program
    tr = run_program(prog)
    out = []
    for ev in tr["ev"]:
        if ev["e"] in ("CALL", "SEND", "DLV"):
            out.append({k: ev[k] for k in ("e", "api", "args", "data", "ci") if k in ev})
        elif ev["e"] == "SHORT":
            out.append(dict(ev))
        elif ev["e"] == "RET":
            d = {"e": "RET", "api": ev["api"], "ok": ev.get("ok", False), "exc": ev.get("exc", "")}
            if "table" in ev:
                d["table"] = ev["table"]
            out.append(d)
    return {"prog": prog, "ev": out, "status": tr["status"]}


def run_program_values(prog: dict) -> dict:
    """Like run_span_program, but keeps the real returned values projected with val() (not the API projection)."""
    import asyncio
    from . import inv_driver
    # monkeypatch-free: re-run with a projection hook
    old = inv_driver.proj
    inv_driver.proj = lambda v, den=None: ({"k": "dict", "d": {k: val(x) for k, x in v.items()}} if isinstance(v, dict)
                                            else ({"k": "single", "v": val(v)}))
    try:
        tr = inv_driver.run_program(prog)
    finally:
        inv_driver.proj = old
    out = []
    for ev in tr["ev"]:
        if ev["e"] in ("CALL", "SEND", "DLV"):
            out.append({k: ev[k] for k in ("e", "api", "args", "data", "ci") if k in ev})
        elif ev["e"] == "SHORT":
            out.append(dict(ev))
        elif ev["e"] == "RET":
            d = {"e": "RET", "api": ev["api"], "ok": ev.get("ok", False), "exc": ev.get("exc", ""),
                 "msg": ev.get("msg", ""), "failed": ev.get("failed", False)}
            if "table" in ev:
                d["table"] = ev["table"]
            v = ev.get("val")
            if isinstance(v, dict) and v.get("k") == "dict":
                d["_raw"] = v["d"]
            elif isinstance(v, dict) and v.get("k") == "single":
                d["_single"] = v["v"]
            out.append(d)
    return {"prog": prog, "ev": out, "status": tr["status"], "oplog": tr.get("oplog", [])}


def judge_spans(run: Run, traces: list[dict], own: tuple[str, ...], batch_spans: int = 40, par: int = 4):
    import concurrent.futures as cf
    batches = []
    cur_spans: list = []
    cur_src: list = []
    ts = TableSet()
    ft = FrameTab()

    def flush():
        nonlocal ts, ft, cur_spans, cur_src
        if cur_spans:
            path = os.path.join(run.workdir, f"spans_{len(batches):04d}.json")
            clean = []
            for sp in cur_spans:
                d = {k: v for k, v in sp.items() if not k.startswith("_")}
                if not d["decode"] and not d["single"] and d["res"]:
                    # only the keys of the result are judged for this span (C14/C15/C18): drop the values
                    d["res"] = {k: 0 for k in d["res"]}
                clean.append(d)
            tlc.write_json(path, {"frames": ft.frames + [[]], "labels": ts.labels, "tables": ts.tables, "spans": clean})
            batches.append((path, cur_spans, cur_src))
        ts, ft, cur_spans, cur_src = TableSet(), FrameTab(), [], []

    for tr in traces:
        spans = extract_spans(tr, ts, ft)
        for sp in spans:
            cur_spans.append(sp)
            cur_src.append(tr["prog"])
        if len(cur_spans) >= batch_spans:
            flush()
    flush()

    def one(b):
        path, spans, src = b
        r = tlc.run_tlc("TraceDecode", env={"VERIF_BATCH": path}, workers=max(2, 16 // par), timeout=3600, heap="6g")
        if not r["ok"]:
            raise engine.MachineryError("TLC failed on " + path + "\n" + r["stdout"][-3000:] + r["stderr"][-1000:])
        v = tlc.parse_verdicts(r["stdout"])
        if len(v) != len(spans):
            raise engine.MachineryError(f"{len(v)} verdicts for {len(spans)} spans in {path}")
        return [[c for c, _ in v[k + 1]] for k in range(len(spans))], r.get("distinct", 0), r.get("generated", 0)

    nsp = 0
    with cf.ThreadPoolExecutor(max_workers=par) as ex:
        for (path, spans, src), (vs, st, trn) in zip(batches, ex.map(one, batches)):
            run.cov["states"] += st
            run.cov["transitions"] += trn
            for sp, prog, clauses in zip(spans, src, vs):
                nsp += 1
                for c in clauses:
                    if c.startswith("INFO."):
                        continue
                    if not c.startswith(own):
                        continue
                    clause, _, sensor = c.partition(":")
                    detail = {"family": sp["fam"], "api": sp["api"], "exc": sp.get("exc", ""), "sensor": sensor}
                    detail.update(sp.get("_ann", {}).get("detail", {}))
                    run.violation(clause, detail, {"program": prog, "span_api": sp["api"]})
            os.remove(path)
    run.cov["traces_validated_against_impl"] += nsp
    run.cov["evaluations"] += nsp
    run.cov["families"]["spans"] = run.cov["families"].get("spans", 0) + nsp
    # the environment these spans were judged in: the simulator's logs must be behaviours of Registers.tla
    from . import checks_sim
    checks_sim.validate_logs(run, [lg for tr in traces for lg in tr.get("oplog", [])],
                             sample=100 if run.tier != "thorough" else 1500, seed=nsp)
    return nsp


RULE = ("(T) for every sensor class signature (type, scale, label table) of every family TLC writes the complete table of "
        "Decode over a 16-bit word at every word position of the sensor's own bytes (other bytes: zero / 0xFF / a valid group); "
        "each word is planted at the sensor's register inside a randomly filled response of random window and decoded by the "
        "real sensor object; (S) programs of public calls on simulated inverters with zero / 0xFF / 0x7FFF / 0x8000 / boundary / "
        "random register fills, judged span by span by TraceDecode.tla; a case is non-trivial when the decoded word differs "
        "from the all-zero pattern; distinct = distinct (sensor, bytes)")


def check(prop: str, tier: str, seed: int) -> int:
    run = Run(prop, tier, seed, "exploration")
    run.cov["rule"] = RULE
    run.assumptions = ["the documented meaning of each sensor type is the transcription in spec/Decode.tla (from the class docstrings, "
                       "README units and the statement of C12); IEEE-754 singles are decided only for integer-valued patterns",
                       "sensor / label tables are exported from the live classes at run time",
                       "TLC, SANY and the CommunityModules are trusted"]
    rnd = random.Random(seed)
    own = (prop + ".",)
    run_sweeps(run, tier, rnd, own)
    progs = gen_span_programs(tier, rnd)
    traces = engine.parallel_map("harness.checks_decode", "run_program_values", progs, procs=16, chunk=1)
    for tr in traces:
        if tr["status"] != "ok":
            raise engine.MachineryError("span program did not finish: " + tr["status"])
    judge_spans(run, traces, own)
    return run.finish()
