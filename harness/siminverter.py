"""A deliberately dumb simulated inverter: a register file with Modbus function 3/6/16 semantics, refused
address ranges (exception 2) and the AA55 command set used by es.py.

NOT trusted: it keeps a log of its configuration, of every request / response pair it serves and of every change the
harness makes behind the library's back (oplog); harness/checks_sim.py has these logs validated by
spec/TraceRegisters.tla against the model spec/Registers.tla (a difference is a machinery failure of the check that
used the simulator, never a verdict about the library).
"""
from __future__ import annotations

from . import frames as F

ES_SETTINGS_BASE = 0x0550   # assumption (DESIGN.md section 6): settings block byte i = register 0x0550 + i/2
ES_SETTINGS_LEN = 86


class SimInverter:
    def __init__(self, fr: str, regs: dict[int, int] | None = None, refused: list | None = None,
                 silent: list | None = None, aa55: dict | None = None, default: int = 0):
        self.fr = fr                      # "rtu" | "tcp"  (aa55 commands are recognised by their header)
        self.regs: dict[int, int] = dict(regs or {})
        self.refused = [tuple(x) for x in (refused or [])]     # inclusive address ranges
        self.silent = [tuple(x) for x in (silent or [])]       # ranges that are never answered
        self.aa55 = dict(aa55 or {})      # "info": bytes, "runtime": bytes
        self.default = default
        self.log: list[tuple[bytes, bytes | None]] = []
        self.exc_code = 2
        # what TraceRegisters.tla replays: the configuration at creation, then the operations in order
        self.start = {"fr": fr, "default": default, "init": sorted(self.regs.items()),
                      "refused": [list(x) for x in self.refused], "silent": [list(x) for x in self.silent],
                      "aa55": {k: (bytes(v) if isinstance(v, (bytes, bytearray, list)) else v) for k, v in self.aa55.items()}}
        self.oplog: list[tuple] = []

    # -- register file ------------------------------------------------------------------------
    def get(self, a: int) -> int:
        return self.regs.get(a & 0xFFFF, self.default) & 0xFFFF

    def set(self, a: int, v: int) -> None:
        self.regs[a & 0xFFFF] = v & 0xFFFF

    def read_bytes(self, first: int, count: int) -> bytes:
        return b"".join(self.get(first + i).to_bytes(2, "big") for i in range(count))

    def write_bytes(self, first: int, data: bytes) -> None:
        for i in range(len(data) // 2):
            self.set(first + i, int.from_bytes(data[2 * i:2 * i + 2], "big"))

    def _hit(self, ranges, first: int, count: int) -> bool:
        return any(first <= hi and lo <= first + count - 1 for lo, hi in ranges)

    # -- protocol -----------------------------------------------------------------------------
    def handle(self, req: bytes) -> bytes | None:
        resp = self._handle(req)
        self.log.append((req, resp))
        self.oplog.append(("req", bytes(req), None if resp is None else bytes(resp)))
        return resp

    # -- changes made by the harness (the world behind the library's back) ---------------------
    def poke(self, a: int, v: int) -> None:
        self.set(a, v)
        self.oplog.append(("poke", a & 0xFFFF, v & 0xFFFF))

    def reconfigure(self, refused=None, silent=None) -> None:
        if refused is not None:
            self.refused = [tuple(x) for x in refused]
        if silent is not None:
            self.silent = [tuple(x) for x in silent]
        self.oplog.append(("cfg", [list(x) for x in self.refused], [list(x) for x in self.silent]))

    def set_blocks(self, blocks: dict) -> None:
        self.aa55.update({k: bytes(v) for k, v in blocks.items()})
        self.oplog.append(("aa55", {k: bytes(v) for k, v in blocks.items()}))

    def export_log(self) -> dict:
        return dict(self.start, ops=list(self.oplog))

    def _handle(self, req: bytes) -> bytes | None:
        if req[:4] == b"\xaa\x55\xc0\x7f":
            return self._aa55(req)
        p = F.parse_request(self.fr, req)
        if p is None:
            return None
        fn, reg, n, addr, tx = p["fn"], p["reg"], p["n"], p["addr"], p["tx"]
        count = n if fn in (3, 16) else 1
        if self._hit(self.silent, reg, count):
            return None
        if self._hit(self.refused, reg, count):
            return F.rtu_exception(addr, fn, self.exc_code) if self.fr == "rtu" else F.tcp_exception(tx, addr, fn, self.exc_code)
        if fn == 3:
            pl = self.read_bytes(reg, n)
            return F.rtu_read_answer(addr, pl) if self.fr == "rtu" else F.tcp_read_answer(tx, addr, pl)
        if fn == 6:
            self.set(reg, n)
        elif fn == 16:
            self.write_bytes(reg, p["payload"])
        else:
            return None
        return F.rtu_write_answer(addr, fn, reg, n) if self.fr == "rtu" else F.tcp_write_answer(tx, addr, fn, reg, n)

    def _aa55(self, req: bytes) -> bytes | None:
        if self.aa55.get("mute"):
            return None
        # like a real device: a frame whose length byte or checksum is wrong is not a request (Registers.tla / Wire!ParseAa55)
        if len(req) < 9 or req[6] != len(req) - 9 or (sum(req[:-2]) & 0xFFFF) != int.from_bytes(req[-2:], "big"):
            return None
        ctl, fn, ln = req[4], req[5], req[6]
        pl = req[7:7 + ln]
        # response type: function | 0x80, except the two commands for which the library expects another one
        rt = (ctl << 8) | {0x27: 0xB7, 0x26: 0xB6}.get(fn, fn | 0x80) if ctl == 3 else (ctl << 8) | (fn | 0x80)
        if ctl == 1 and fn == 0x02:
            if self.aa55.get("info_once"):
                # only the first identification probe is answered, afterwards the inverter is silent
                if self.aa55.get("_info_served"):
                    return None
                self.aa55["_info_served"] = True
            return F.aa55_answer(rt, self.aa55.get("info", bytes(64)))
        if ctl == 1 and fn == 0x06:
            if self.aa55.get("mute_runtime"):
                return None
            return F.aa55_answer(rt, self.aa55.get("runtime", bytes(149)))
        if ctl == 1 and fn == 0x09:
            n = self.aa55.get("settings_len", ES_SETTINGS_LEN)
            return F.aa55_answer(rt, self.read_bytes(ES_SETTINGS_BASE, (n + 1) // 2)[:n])
        if ctl == 1 and fn == 0x1A:
            reg, cnt = int.from_bytes(pl[0:2], "big"), pl[2]
            if self._hit(self.silent, reg, cnt):
                return None
            return F.aa55_answer(rt, self.read_bytes(reg, cnt))
        if ctl == 2 and fn == 0x39:
            reg, nb = int.from_bytes(pl[0:2], "big"), pl[2]
            data = pl[3:]
            if len(pl) == 5 and nb == 1:          # single register write: reg, 01, value
                self.set(reg, int.from_bytes(data[0:2], "big"))
            else:
                self.write_bytes(reg, data[:nb])
            return F.aa55_answer(rt, b"\x06")
        if ctl == 3:
            if fn == 0x59 and ln == 1:            # work mode -> settings byte 66
                self.set(ES_SETTINGS_BASE + 33, pl[0])
            elif fn == 0x35 and ln == 2:          # export limit -> settings byte 52
                self.set(ES_SETTINGS_BASE + 26, int.from_bytes(pl[0:2], "big"))
            return F.aa55_answer(rt, b"\x06")
        return None
