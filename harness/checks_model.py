"""Design-model side of the inverter-layer checks: exhaustive TLC runs of Inverter.tla and the comparison of its
predictions (requested blocks, success, listed blocks) with what the real classes did (DRIFT when they differ)."""
from __future__ import annotations

import os
import re

from . import engine, tlc
from .engine import Run


def run_inverter_model(run: Run, prop: str, tier: str) -> None:
    cfgs = ["MC_Inverter_ET_All", "MC_Inverter_DT_All"]
    engine.run_mc(run, "MC_Inverter", cfgs, timeout=1800)


ET_REQ = {(35100, 125): "running", (37000, 24): "battery", (39000, 22): "battery2", (36000, 45): "meter45",
          (36000, 58): "meter58", (36000, 125): "meter125", (35301, 61): "mppt"}
DT_REQ = {(30100, 73): "running", (30195, 15): "meter"}


def listed_blocks(fam: str, listing: list[dict]) -> set[str]:
    out = set()
    addrs = [e["addr"] for e in listing if e["ty"] not in ("Calculated", "EnumCalculated")]
    if fam == "ET":
        meter = [a for a in addrs if 36000 <= a < 37000]
        for a in addrs:
            if 35100 <= a < 35301:
                out.add("running")
            elif 35301 <= a < 36000:
                out.add("mppt")
            elif 37000 <= a < 38000:
                out.add("battery")
            elif 39000 <= a < 40000:
                out.add("battery2")
        if meter:
            out.add("meter:" + ("all" if max(meter) >= 36058 else ("lt36058" if max(meter) >= 36045 else "lt36045")))
    else:
        for a in addrs:
            out.add("running" if a < 30195 else "meter")
    return out


def model_cfg(cfg: dict) -> dict:
    from goodwe import model as M

    class Dummy:
        pass
    d = Dummy()
    from .checks_inverter import serial_for
    d.serial_number = serial_for(cfg["tag"])
    rated = cfg.get("rated", 0)
    return {"tag": cfg["tag"], "four": bool(M.is_4_mppt(d)), "single": bool(M.is_single_phase(d)), "bat2": bool(M.is_2_battery(d)),
            "p745": bool(M.is_745_platform(d)), "rated": "lo" if rated < 15000 else ("mid" if rated < 25000 else "hi"),
            "refused": list(cfg["refused"]), "bats": [bool(b) if b is not None else True for b in cfg["bat"]]}


_PRED = re.compile(r'^"?PRED\|(\d+)\|(\d+)\|(<<.*?>>)\|(TRUE|FALSE)\|(\{.*?\})"?\s*$', re.M)


def compare_predictions(run: Run, progs: list[dict], traces: list[dict]) -> None:
    from .tlaval import parse_value
    from goodwe.modbus import MODBUS_READ_CMD  # noqa: F401  (library importable)
    drift = 0
    compared = 0
    for fam in ("ET", "DT"):
        idx = [i for i, p in enumerate(progs) if p.get("cfg", {}).get("fam") == fam and not p["inv"][0]["sim"].get("silent")]
        if not idx:
            continue
        cfgs = [model_cfg(progs[i]["cfg"]) for i in idx]
        path = os.path.join(run.workdir, f"pred_{fam}.json")
        tlc.write_json(path, cfgs)
        r = tlc.run_tlc("PredictInverter", cfg=f"PredictInverter_{fam}", env={"VERIF_CFGS": path}, workers=8, timeout=1800)
        if not r["ok"]:
            raise engine.MachineryError("PredictInverter failed\n" + r["stdout"][-2000:])
        run.cov["states"] += r.get("distinct", 0)
        run.cov["transitions"] += r.get("generated", 0)
        pred = {}
        for mm in _PRED.finditer(r["stdout"].replace('\\"', '"')):
            pid, step = int(mm.group(1)), int(mm.group(2))
            pred[(pid, step)] = (parse_value(mm.group(3)), mm.group(4) == "TRUE", set(parse_value(mm.group(5))))
        reqmap = ET_REQ if fam == "ET" else DT_REQ
        for k, i in enumerate(idx):
            tr = traces[i]
            step = 0
            cur = None
            last_rt = None
            frname = "tcp" if progs[i]["inv"][0].get("port", 8899) == 502 else "rtu"
            for ev in tr["ev"]:
                if ev["e"] == "CALL":
                    cur = {"api": ev["api"], "reqs": []}
                elif ev["e"] == "SEND" and cur is not None:
                    from . import frames as F
                    p = F.parse_request(frname, ev["data"])
                    if p and p["fn"] == 3:
                        cur["reqs"].append(reqmap.get((p["reg"], p["n"]), f"?{p['reg']}+{p['n']}"))
                elif ev["e"] == "RET" and cur is not None:
                    if ev["api"] == "read_runtime_data":
                        step += 1
                        last_rt = (step, cur["reqs"], bool(ev.get("ok")))
                    elif ev["api"] == "table:sensors" and last_rt is not None:
                        st, reqs, ok = last_rt
                        want = pred.get((k + 1, st))
                        compared += 1
                        got_listing = listed_blocks(fam, ev["table"])
                        if want is not None and ok and run.prop == "C15" and (want[2] - got_listing):
                            # C15, "supported ones are all present": a block that this model has (ModelTags.tla, rated power)
                            # and that the simulated inverter answers is missing from sensors() after a successful call
                            run.violation("C15.SupportedPresent", {"family": fam, "missing": sorted(want[2] - got_listing),
                                                                   **{kk: str(vv) for kk, vv in progs[i]["cfg"].items()}},
                                          {"program": progs[i], "span_api": "runtime"})
                        if want is None or list(want[0]) != reqs or want[1] != ok or want[2] != got_listing:
                            drift += 1
                            if drift <= 5:
                                run.notes.append(f"DRIFT: Inverter.tla predicts {want} for {progs[i]['cfg']} call {st}, "
                                                 f"the code did reqs={reqs} ok={ok} listing={sorted(got_listing)}")
                        last_rt = None
                    cur = None
        os.remove(path)
    run.cov["model_predictions_compared"] = run.cov.get("model_predictions_compared", 0) + compared
    run.cov["model_predictions_drift"] = run.cov.get("model_predictions_drift", 0) + drift
    if drift:
        run.notes.append(f"DRIFT: {drift} of {compared} predictions of the design model differ from the code: the exhaustive "
                         "model-checking result is not transferable until Inverter.tla is brought in line")
