"""Glue around the TLC command line: run a module, collect statistics and PrintT output."""
from __future__ import annotations

import json
import os
import re
import shutil
import subprocess
import tempfile
import time

VERIF = os.path.dirname(os.path.dirname(os.path.abspath(__file__)))
SPEC = os.path.join(VERIF, "spec")
OUT = os.path.join(VERIF, "out")
JAR = "/opt/veriftools/tla/tla2tools.jar"
CM = "/opt/veriftools/tla/CommunityModules-deps.jar"


class TlcError(Exception):
    pass


def _java():
    return shutil.which("java") or "java"


def run_tlc(module: str, cfg: str | None = None, env: dict | None = None, workers: int | str = 16,
            timeout: int = 1800, extra: list[str] | None = None, heap: str = "8g",
            simulate: str | None = None, depth: int | None = None, coverage: bool = False,
            keep: bool = False) -> dict:
    """Run TLC on spec/<module>.tla with spec/<cfg>.cfg.  Returns dict with stdout, stats, prints."""
    os.makedirs(os.path.join(OUT, "tlc"), exist_ok=True)
    meta = tempfile.mkdtemp(prefix=module + "_", dir=os.path.join(OUT, "tlc"))
    cfgfile = os.path.join(SPEC, (cfg or module) + ".cfg")
    cmd = [_java(), "-Xmx" + heap, "-XX:+UseParallelGC", "-cp", JAR + ":" + CM, "tlc2.TLC",
           "-workers", str(workers), "-metadir", meta, "-noGenerateSpecTE", "-config", cfgfile]
    if coverage:
        cmd += ["-coverage", "1"]
    if simulate:
        cmd += ["-simulate", simulate]
    if depth is not None:
        cmd += ["-depth", str(depth)]
    if extra:
        cmd += extra
    cmd.append(os.path.join(SPEC, module + ".tla"))
    e = dict(os.environ)
    if env:
        e.update({k: str(v) for k, v in env.items()})
    t0 = time.time()
    try:
        p = subprocess.run(cmd, cwd=SPEC, env=e, capture_output=True, text=True, timeout=timeout)
    except subprocess.TimeoutExpired as ex:
        shutil.rmtree(meta, ignore_errors=True)
        raise TlcError(f"TLC timeout after {timeout}s on {module}") from ex
    wall = time.time() - t0
    if not keep:
        shutil.rmtree(meta, ignore_errors=True)
    out = p.stdout
    res = {"stdout": out, "stderr": p.stderr, "rc": p.returncode, "wall_s": wall, "cmd": " ".join(cmd)}
    mm = re.search(r"(\d+) states generated, (\d+) distinct states found, (\d+) states left on queue", out)
    if mm:
        res["generated"], res["distinct"], res["queue"] = int(mm.group(1)), int(mm.group(2)), int(mm.group(3))
    mm = re.search(r"The depth of the complete state graph search is (\d+)", out)
    if mm:
        res["depth"] = int(mm.group(1))
    res["ok"] = "Model checking completed. No error has been found." in out or (
        simulate is not None and p.returncode == 0)
    res["invariant_violated"] = re.findall(r"Invariant (\S+) is violated", out)
    res["property_violated"] = re.findall(r"(?:Temporal|Action) propert(?:y|ies) (\S+)? ?(?:was|were) violated", out)
    return res


_VERDICT = re.compile(r'^"?VERDICT\|(\d+)\|(\{.*\})"?\s*$', re.M)
_PAIR = re.compile(r'<<\\?"([^"\\]+)\\?", (\d+)>>')


def parse_verdicts(stdout: str) -> dict[int, list[tuple[str, int]]]:
    """Extract <<"VERDICT", tid, {<<clause, idx>>, …}>> prints (robust to line wrapping)."""
    res: dict[int, list[tuple[str, int]]] = {}
    for mm in _VERDICT.finditer(stdout):
        tid = int(mm.group(1))
        res[tid] = [(c, int(i)) for c, i in _PAIR.findall(mm.group(2))]
    return res


def sany(module: str) -> tuple[bool, str]:
    cmd = [_java(), "-cp", JAR + ":" + CM, "tla2sany.SANY", os.path.join(SPEC, module + ".tla")]
    p = subprocess.run(cmd, cwd=SPEC, capture_output=True, text=True, timeout=300)
    ok = p.returncode == 0 and "error" not in p.stdout.lower().replace("errors: 0", "")
    return ok, p.stdout + p.stderr


def write_json(path: str, obj) -> None:
    os.makedirs(os.path.dirname(path), exist_ok=True)
    with open(path, "w") as f:
        json.dump(obj, f, separators=(",", ":"))
