"""Turn recorded traces into the batch format read by the Trace*.tla monitors.

Batch = {"frames": [[byte,…], …], "traces": [{"meta": {...}, "ev": [{...}, …]}, …]}
Byte strings are stored once in `frames` (1-based ids in events); every event record has the
same fields (TLC records have no optional fields).  This is lossless re-encoding, no state is
guessed here.
"""
from __future__ import annotations

EV_DEFAULT = {"e": "", "t": 0, "c": 0, "r": 0, "tr": 0, "f": 0, "pf": 0, "out": "", "exc": "", "fam": False,
              "msg": "", "err": 0, "why": "", "k": "", "by": "", "n": 0}


class Batch:
    def __init__(self):
        self.frames: list[list[int]] = []
        self._idx: dict[bytes, int] = {}
        self.traces: list[dict] = []
        self.sources: list[dict] = []   # scenario per trace (not given to TLC)

    def fid(self, b: bytes) -> int:
        b = bytes(b)
        i = self._idx.get(b)
        if i is None:
            self.frames.append(list(b))
            i = len(self.frames)
            self._idx[b] = i
        return i

    def add_protocol_trace(self, trace: dict) -> int:
        # times are whole ticks as long as the library only waits for what the scenario configured; a change that sleeps
        # for other amounts (a back-off of 0.1 s, say) puts events between ticks: such a trace is judged in units of
        # 1/1000 tick (every time and the constants T / CT scaled alike), never refused
        def offgrid(t):
            return not isinstance(t, int) and abs(t - round(t)) >= 1e-9
        scale = 1000 if any(offgrid(ev.get("t", 0)) for ev in trace["ev"]) else 1
        evs = []
        for ev in trace["ev"]:
            if ev["e"] in ("DLVDROP", "SENDDROP", "LOOPEND"):
                continue
            d = dict(EV_DEFAULT)
            for k, v in ev.items():
                if k == "data":
                    d["f"] = self.fid(v)
                elif k == "pl":
                    d["pf"] = self.fid(v)
                elif k in ("eof", "kind"):
                    continue
                elif v is None:
                    continue
                else:
                    d[k] = v
            d["t"] = int(round(d["t"] * scale))
            evs.append(d)
        meta = trace["meta"]
        if scale != 1:
            meta = dict(meta, T=meta["T"] * scale, CT=meta["CT"] * scale)
        self.traces.append({"meta": meta, "ev": evs})
        self.sources.append(trace.get("sc", {}))
        return len(self.traces)

    def to_json(self) -> dict:
        return {"frames": self.frames, "traces": self.traces}


def check_format(batch: dict) -> None:
    """Structural check before TLC is started (malformed trace = machinery failure, not a verdict)."""
    nf = len(batch["frames"])
    for fr in batch["frames"]:
        if not all(isinstance(x, int) and 0 <= x <= 255 for x in fr):
            raise ValueError("frame table holds a non-byte")
    for tr in batch["traces"]:
        last = None
        for ev in tr["ev"]:
            if set(ev) != set(EV_DEFAULT):
                raise ValueError(f"event fields {sorted(ev)}")
            if not isinstance(ev["t"], int) or ev["t"] < 0:
                raise ValueError("bad time")
            if last is not None and ev["t"] < last:
                raise ValueError("time goes backwards")
            last = ev["t"]
            if not (0 <= ev["f"] <= nf and 0 <= ev["pf"] <= nf):
                raise ValueError("frame id out of range")
