"""Drive the real goodwe protocol objects along a scenario and record a boundary trace.

A scenario is a plain dict (JSON-able), see DESIGN.md section 3:

  kind     "udp" | "tcp"            transport
  fr       "rtu" | "tcp" | "aa55"   framing of the commands
  ka       bool                     keep-alive
  retries  int
  T        int                      timeout in ticks (timeout = T * TICK seconds)
  strict   bool                     selector-faithful scheduling (default True)
  epochs   [ [caller, ...], ... ]   one event loop per epoch (successive asyncio.run calls)
           caller = {"start": ticks, "prog": [step, ...]}
           step   = {"do": "req", "op": "read"|"write"|"wmulti"|"aa55", "reg":, "n":, "v":, "payload": hex,
                     "body": hex, "rt": int}
                  | {"do": "sleep", "d": ticks} | {"do": "close"}
  faults   [fault, ...]             one per transmission, in transmission order; then `dflt`
  dflt     fault                    default {"k": "drop"}
  connects [outcome, ...]           per TCP connect / UDP endpoint creation, then "ok";
                                    outcome = "ok" | "refused" | "unreach" | "netunreach" | "hang" | ["ok", delay]

Fault kinds (d = delay in ticks after the transmission):
  drop | ans d | late (answer at T+1) | garbage d | short d | badcrc d | exc code d | frag split d d2 second
  | lone split d | dup d | dupx code d | ansx code d | dupg d | pclose d err | eof d | err d errno | foreign d | ansg d (answer then garbage)
  second (of frag) = exact | plus1 | minus1 | corrupt | other | none
"""
from __future__ import annotations

import asyncio
import errno as _errno
import logging
import os
import sys

sys.path.insert(0, os.environ.get("VERIF_REPO", "/repo"))

from goodwe.exceptions import InverterError, RequestFailedException, RequestRejectedException, MaxRetriesException  # noqa: E402
from goodwe.protocol import (Aa55ProtocolCommand, Aa55ReadCommand, Aa55WriteCommand, Aa55WriteMultiCommand,  # noqa: E402
                             TcpInverterProtocol, UdpInverterProtocol)

from . import frames as F  # noqa: E402
from .vloop import TICK, VLoop, run  # noqa: E402

logging.getLogger("asyncio").setLevel(logging.CRITICAL)
logging.getLogger("goodwe").setLevel(logging.CRITICAL)

GARBAGE = bytes.fromhex("deadbeef00112233445566778899")
# Modbus/TCP has no checksum: bytes with a foreign function code count as an exception-like answer ("rejected"),
# so the garbage of the tcp framing is a read answer with an impossible (odd) byte count, which is refused
GARBAGE_TCP = bytes.fromhex("deadbeef0005f703011122334455")
SHORT = bytes.fromhex("0102")


def tag_payload(reg: int, n: int) -> bytes:
    return (reg & 0xFFFF).to_bytes(2, "big") * n


def _read_payload(sc: dict, reg: int, n: int, reg_shift: int) -> bytes:
    """Payload of a read answer: the register tag, or the content the scenario prescribes for this register."""
    hx = (sc.get("payloads") or {}).get(str(reg))
    if hx is not None and reg_shift == 0:
        b = bytes.fromhex(hx)
        return (b * (2 * n // max(1, len(b)) + 1))[:2 * n]
    return tag_payload(reg + reg_shift, n)


def valid_answer(sc: dict, req: bytes, reg_shift: int = 0) -> bytes | None:
    fr = sc["fr"]
    p = F.parse_request(fr, req)
    if p is None:
        return None
    if fr == "rtu":
        if p["fn"] == 3:
            return F.rtu_read_answer(p["addr"], _read_payload(sc, p["reg"], p["n"], reg_shift))
        return F.rtu_write_answer(p["addr"], p["fn"], p["reg"] + reg_shift, p["n"])
    if fr == "tcp":
        if p["fn"] == 3:
            return F.tcp_read_answer(p["tx"], p["addr"], _read_payload(sc, p["reg"], p["n"], reg_shift))
        return F.tcp_write_answer(p["tx"], p["addr"], p["fn"], p["reg"] + reg_shift, p["n"])
    if fr == "aa55":
        ctl, fn, pl = p["ctl"], p["fn"], p["payload"]
        rt = (ctl << 8) | (fn | 0x80)
        if sc.get("aa55_len") is not None:
            # AA55 answers announce their own payload length: any length 0..255 with the right checksum conforms
            return F.aa55_answer(rt, bytes((i * 7 + 1 + reg_shift) & 0xFF for i in range(sc["aa55_len"])))
        if ctl == 1 and fn == 0x1A:  # read registers
            reg = int.from_bytes(pl[0:2], "big")
            return F.aa55_answer(rt, _read_payload(sc, reg, pl[2], reg_shift))
        if ctl == 2:
            return F.aa55_answer(rt, b"\x06")
        n = sc.get("aa55_len", 8)
        return F.aa55_answer(rt, bytes((i * 7 + reg_shift) & 0xFF for i in range(n)))
    return None


def exception_answer(sc: dict, req: bytes, code: int) -> bytes:
    p = F.parse_request(sc["fr"], req)
    if sc["fr"] == "rtu":
        return F.rtu_exception(p["addr"], p["fn"], code)
    if sc["fr"] == "tcp":
        return F.tcp_exception(p["tx"], p["addr"], p["fn"], code)
    return GARBAGE


def corrupt(sc: dict, frame: bytes) -> bytes:
    """Same length, not a valid answer."""
    b = bytearray(frame)
    if sc["fr"] == "tcp":
        # byte count / echo field no longer matches; decrement so that the frame is not mistaken for the head of a
        # longer answer (the announced length stays within the bytes delivered)
        b[8] = (b[8] - 1) & 0xFF
    else:
        b[-1] ^= 0x01  # checksum
    return bytes(b)


class Peer:
    """Scripted network: decides per transmission what comes back."""

    def __init__(self, sc: dict):
        self.sc = sc
        self.n = 0
        self.per_req: dict[int, int] = {}
        # request index by register (programs use one distinct register per request)
        self.reg2req: dict[int, int] = {}
        k = 0
        for callers in sc["epochs"]:
            for c in callers:
                for step in c["prog"]:
                    if step["do"] == "req":
                        self.reg2req.setdefault(step.get("reg", -1 - k), k)
                        k += 1

    def _fault(self, data: bytes) -> dict:
        sc = self.sc
        dflt = sc.get("dflt", {"k": "drop"})
        if "rfaults" in sc:
            p = F.parse_request(sc["fr"], data) or {}
            reg = p.get("reg")
            if reg is None and sc["fr"] == "aa55" and p.get("payload") and len(p["payload"]) >= 2:
                reg = int.from_bytes(p["payload"][0:2], "big")
            ri = self.reg2req.get(reg, 0)
            lst = sc["rfaults"][ri] if ri < len(sc["rfaults"]) else []
            n = self.per_req.get(ri, 0)
            self.per_req[ri] = n + 1
            return lst[n] if n < len(lst) else dflt
        faults = sc.get("faults", [])
        f = faults[self.n] if self.n < len(faults) else dflt
        return f

    def __call__(self, tr, data: bytes):
        sc = self.sc
        f = self._fault(data)
        self.n += 1
        k = f["k"]
        d = f.get("d", 0)
        T = sc["T"]
        ans = valid_answer(sc, data)
        if ans is None:
            ans = GARBAGE
        if k == "drop":
            return
        if k == "ans":
            tr.deliver(ans, d, "ans")
        elif k == "anstrail":
            # a conforming Modbus/RTU answer followed by trailing bytes (the statement of C02 allows them)
            tr.deliver(ans + bytes.fromhex(f.get("trail", "0000")), d, "ans")
        elif k == "late":
            tr.deliver(ans, T + 1 + d, "late")
        elif k == "garbage":
            tr.deliver(GARBAGE_TCP if sc["fr"] == "tcp" else GARBAGE, d, "garbage")
        elif k == "fgarbage":
            tr.deliver(GARBAGE, d, "exc" if sc["fr"] == "tcp" else "garbage")
        elif k == "short":
            tr.deliver(SHORT, d, "short")
        elif k == "badcrc":
            tr.deliver(corrupt(sc, ans), d, "badcrc")
        elif k == "exc":
            tr.deliver(exception_answer(sc, data, f.get("code", 2)), d, "exc")
        elif k == "foreign":
            tr.deliver(valid_answer(sc, data, 1) or GARBAGE, d, "foreign")
        elif k == "dup":
            tr.deliver(ans, d, "ans")
            tr.deliver(ans, d, "dup")
        elif k == "dupg":
            g = GARBAGE_TCP if sc["fr"] == "tcp" else GARBAGE
            tr.deliver(g, d, "garbage")
            tr.deliver(g, d, "garbage")
        elif k == "ansg":
            tr.deliver(ans, d, "ans")
            tr.deliver(GARBAGE_TCP if sc["fr"] == "tcp" else GARBAGE, d, "garbage")
        elif k == "gans":
            tr.deliver(GARBAGE_TCP if sc["fr"] == "tcp" else GARBAGE, d, "garbage")
            tr.deliver(ans, d, "ans")
        elif k == "dupx":
            tr.deliver(exception_answer(sc, data, f.get("code", 2)), d, "exc")
            tr.deliver(exception_answer(sc, data, f.get("code", 2)), d, "exc")
        elif k == "ansx":
            tr.deliver(ans, d, "ans")
            tr.deliver(exception_answer(sc, data, f.get("code", 2)), d, "exc")
        elif k in ("frag", "lone"):
            split = f.get("split", 9)
            split = max(1, min(split, len(ans) - 1))
            head, tail = ans[:split], ans[split:]
            tr.deliver(head, d, "head")
            if k == "frag":
                second = f.get("second", "exact")
                d2 = f.get("d2", d)
                if second == "exact":
                    tr.deliver(tail, d2, "tail")
                elif second == "plus1":
                    tr.deliver(tail + b"\x00", d2, "tail+1")
                elif second == "minus1":
                    if len(tail) > 1:
                        tr.deliver(tail[:-1], d2, "tail-1")
                elif second == "corrupt":
                    tr.deliver(corrupt(sc, ans)[split:] if sc["fr"] != "tcp" else bytes([tail[0] ^ 0xFF]) + tail[1:],
                               d2, "tailx")
                elif second == "other":
                    other = valid_answer(sc, data, 1) or GARBAGE
                    tr.deliver(other, d2, "foreign")
                elif second == "othertail":
                    other = valid_answer(sc, data, 1) or GARBAGE
                    tr.deliver(other[split:], d2, "foreigntail")
        elif k == "pclose":
            err = f.get("err")
            tr.peer_close(d, OSError(err, "reset") if err else None)
        elif k == "eof":
            tr.peer_close(d, None, eof=True)
        elif k in ("anseof", "ansclose"):
            # a valid answer; afterwards - the request is done, the connection idle - the peer closes (orderly / abruptly)
            tr.deliver(ans, d, "ans")
            tr.peer_close(f.get("d2", d + 1), None, eof=(k == "anseof"))
        elif k == "anshead":
            # a valid answer; afterwards - the request is done - the first piece of a duplicate of it arrives (idle protocol)
            tr.deliver(ans, d, "ans")
            split = max(1, min(f.get("split", 9), len(ans) - 1))
            tr.deliver(ans[:split], f.get("d2", d + 1), "head")
        elif k == "anserr":
            # a valid answer, then an OS-level error on the same transport (request already done)
            tr.deliver(ans, d, "ans")
            err = f.get("err", _errno.ECONNREFUSED)
            exc = ConnectionRefusedError(err, "refused") if err == _errno.ECONNREFUSED else OSError(err, "os error")
            d2 = f.get("d2", d)
            if tr.kind == "udp":
                tr.send_error(exc, d2)
            else:
                tr.peer_close(d2, exc)
        elif k == "mut":
            # the valid answer to this very request, mutated by one of the wire-level mutation classes (another size, function
            # code, echoed field, response type, extra / missing bytes ... with checksums recomputed where the class says so),
            # delivered whole or in two pieces.  What the bytes ARE is decided by the specification from the bytes.
            import random as _random
            from . import checks_wire as W
            p = F.parse_request(sc["fr"], data) or {}
            op = {3: "read", 6: "write", 16: "wmulti"}.get(p.get("fn"), "read") if sc["fr"] != "aa55" else "read"
            cmd = {"fr": sc["fr"], "op": op, "addr": p.get("addr", 0xF7), "reg": p.get("reg", 0), "n": p.get("n", 0), "rt": -1,
                   "payload": list(p.get("payload", b"")) if op == "wmulti" else []}
            names = set(f.get("names") or ("resize", "fn", "fncrc", "field", "fieldcrc", "rtype", "ext", "lead"))
            cands = [m for name, m in W.mutations(ans, _random.Random(f.get("seed", 1)), cmd, 0, False) if name in names and m]
            frame = cands[f.get("i", 0) % len(cands)] if cands else GARBAGE
            s_ = f.get("split", 0)
            if 0 < s_ < len(frame):
                tr.deliver(frame[:s_], d, "mut")
                tr.deliver(frame[s_:], f.get("d2", d + 1), "mut")
            else:
                tr.deliver(frame, d, "mut")
        elif k in ("err", "serr"):
            err = f.get("err", _errno.ECONNREFUSED)
            exc = ConnectionRefusedError(err, "refused") if err == _errno.ECONNREFUSED else OSError(err, "os error")
            if tr.kind == "udp" and k == "serr":
                # the error is raised by the send itself and reported before sendto() returns
                tr.sync_error(exc)
            elif tr.kind == "udp":
                tr.send_error(exc, d)
            else:
                tr.peer_close(d, exc)
        else:
            raise ValueError("unknown fault " + k)


def make_command(sc: dict, protocol, step: dict):
    op = step["op"]
    if sc["fr"] == "aa55":
        if op == "read":
            return Aa55ReadCommand(step["reg"], step["n"])
        if op == "write":
            return Aa55WriteCommand(step["reg"], step["v"])
        if op == "wmulti":
            return Aa55WriteMultiCommand(step["reg"], bytes.fromhex(step["payload"]))
        return Aa55ProtocolCommand(step["body"], "%04x" % step["rt"])
    if op == "read":
        return protocol.read_command(step["reg"], step["n"])
    if op == "write":
        return protocol.write_command(step["reg"], step["v"])
    if op == "wmulti":
        return protocol.write_multi_command(step["reg"], bytes.fromhex(step["payload"]))
    raise ValueError(op)


def cmd_descriptor(sc: dict, step: dict, addr: int) -> dict:
    """What the request means, for the specification (fields of Wire.tla's command record)."""
    op = step["op"]
    d = {"fr": sc["fr"], "op": op, "addr": addr, "reg": step.get("reg", 0), "n": 0, "rt": -1, "payload": []}
    if op == "read":
        d["n"] = step["n"]
    elif op == "write":
        d["n"] = step["v"] & 0xFFFF
    elif op == "wmulti":
        pl = bytes.fromhex(step["payload"])
        d["n"] = len(pl) // 2
        d["payload"] = list(pl)
    if sc["fr"] == "aa55":
        d["addr"] = 127
        if op == "read":
            d["rt"] = 0x019A
        elif op in ("write", "wmulti"):
            d["rt"] = 0x02B9
        else:
            d["op"] = "raw"
            d["rt"] = step["rt"]
            d["payload"] = list(bytes.fromhex(step["body"]))
    return d


def classify_exc(exc: BaseException) -> tuple[str, str]:
    if isinstance(exc, RequestRejectedException):
        return "rejected", str(getattr(exc, "message", ""))
    if isinstance(exc, (RequestFailedException, MaxRetriesException)):
        return "failed", str(getattr(exc, "message", ""))
    return "raise", ""


def run_scenario(sc: dict) -> dict:
    """Execute the scenario on the real protocol class; return {"meta":…, "ev":[…]}."""
    kind = sc["kind"]
    T = sc["T"]
    addr = sc.get("addr", 0xF7)
    P = UdpInverterProtocol if kind == "udp" else TcpInverterProtocol
    protocol = P("inverter", 8899 if kind == "udp" else 502, addr, T * TICK, sc["retries"])
    protocol.keep_alive = bool(sc["ka"])
    peer = Peer(sc)
    connects = list(sc.get("connects", []))

    def connect_script(k):
        if connects:
            o = connects.pop(0)
            if isinstance(o, list):
                return o[0], o[1]
            return o, 0
        return "ok", 0

    events: list[dict] = []
    cmds: list[dict] = []
    rid = [0]
    t0 = 0
    status = "ok"
    horizon = sc.get("horizon", 4000)

    keep = bool(sc.get("keep_loops", False))   # earlier loops stay open (not closed like asyncio.run does)
    kept: list = []
    for epoch_no, callers in enumerate(sc["epochs"]):
        loop = VLoop(strict=sc.get("strict", True), horizon=t0 + horizon, t0=t0)
        asyncio.set_event_loop(loop)
        loop.events = events
        loop.peer = peer
        loop.connect_script = connect_script
        loop.rec("LOOPKEEP" if keep and epoch_no > 0 else "LOOP", n=epoch_no)

        async def caller(ci: int, spec: dict):
            if spec.get("start", 0):
                await asyncio.sleep(spec["start"] * TICK)
            for step in spec["prog"]:
                do = step["do"]
                if do == "sleep":
                    await asyncio.sleep(step["d"] * TICK)
                elif do == "close":
                    loop.rec("UCLOSE", c=ci)
                    try:
                        await protocol.close()
                        loop.rec("UCLOSED", c=ci)
                    except BaseException as e:  # noqa
                        loop.rec("UCLOSED", c=ci, exc=type(e).__name__)
                elif do == "req":
                    cmd = make_command(sc, protocol, step)
                    rid[0] += 1
                    r = rid[0]
                    cmds.append(cmd_descriptor(sc, step, addr))

                    async def one(cmd=cmd, r=r, step=step):
                        loop.rec("CALL", c=ci, r=r)
                        if "cancel_after" in step:
                            # the user of the library cancels the task that runs this request (task.cancel(), wait_for)
                            me = asyncio.current_task()

                            def do_cancel():
                                if not me.done():
                                    loop.rec("UCANCEL", c=ci, r=r)
                                    me.cancel()
                            loop.call_later(step["cancel_after"] * TICK, do_cancel)
                        try:
                            resp = await cmd.execute(protocol)
                            loop.rec("RET", c=ci, r=r, out="ok", data=bytes(resp.raw_data),
                                     pl=bytes(resp.response_data()))
                        except asyncio.CancelledError as e:
                            loop.rec("RET", c=ci, r=r, out="cancelled" if "cancel_after" in step else "raise",
                                     exc="CancelledError", fam=False)
                        except Exception as e:  # noqa
                            out, msg = classify_exc(e)
                            loop.rec("RET", c=ci, r=r, out=out, exc=type(e).__name__,
                                     fam=isinstance(e, InverterError), msg=msg)
                    if "cancel_after" in step:
                        # only then the request runs in a task of its own (the other families are left as they were)
                        try:
                            await asyncio.ensure_future(one())
                        except asyncio.CancelledError:
                            pass
                    else:
                        await one()

        async def main():
            tasks = [asyncio.ensure_future(caller(i + 1, c)) for i, c in enumerate(callers)]
            await asyncio.gather(*tasks)
            # let deferred callbacks (connection_lost of closed transports, stale timers) run
            await asyncio.sleep((sc.get("settle", 3 * T)) * TICK)

        st, _ = run(loop, main())
        if st != "ok":
            status = st
        t0 = loop.ticks
        loop.rec("LOOPEND", n=epoch_no)
        if keep and st == "ok":
            kept.append(loop)
            continue
        try:
            # cancel whatever is left so that closing the loop is quiet
            for task in asyncio.all_tasks(loop):
                task.cancel()
            loop.run_until_complete(asyncio.sleep(0)) if st == "ok" else None
        except BaseException:  # noqa
            pass
        loop.close()
        if st != "ok":
            break
    for old in kept:
        # the kept loops get to run their pending callbacks (connection_lost of transports closed from another loop)
        try:
            old._ticks = max(old._ticks, t0)
            asyncio.set_event_loop(old)
            old.run_until_complete(asyncio.sleep(0))
            old.run_until_complete(asyncio.sleep(0))
        except BaseException:  # noqa
            pass
        old.close()
    events.append({"e": "END", "t": t0})
    meta = {k: sc[k] for k in ("kind", "fr", "ka", "retries", "T")}
    meta["strict"] = sc.get("strict", True)
    meta["assume"] = bool(sc.get("assume", False))
    meta["ncallers"] = max(len(c) for c in sc["epochs"])
    meta["status"] = status
    meta["cmds"] = cmds
    meta["CT"] = int(5 / TICK)
    return {"meta": meta, "ev": events, "sc": sc}
