"""C17: write_setting / read_setting round trips, judged against the Encode/Decode of Decode.tla.

(T) complete value domain of 1- and 2-byte settable types: TLC writes the table raw word -> documented value
    (ExportDecode); for every raw word the value is written through the public API on a simulated inverter and
    the recorded write request must address the setting's register and carry exactly that word; read_setting
    must return the value again.
(S) all settings x boundary + random values x random prior register contents x framings, judged by
    TraceDecode.tla (OneWrite, Address, Encoding, ReadBack)."""
from __future__ import annotations

import json
import os
import random
import sys

sys.path.insert(0, os.environ.get("VERIF_REPO", "/repo"))

from . import engine, frames as F, tlc  # noqa: E402
from .checks_decode import (SIZE, VALID_BASE, device_regs, es_info, judge_spans, run_program_values, val, val_eq)  # noqa: E402
from .checks_inverter import serial_for  # noqa: E402
from .engine import Run  # noqa: E402
from .tables import TableSet, entry  # noqa: E402

SETTABLE = {"Integer", "IntegerS", "Voltage", "Current", "CurrentS", "Decimal", "Long", "ByteH", "ByteL", "Timestamp",
            "EcoModeV1", "EcoModeV2", "PeakShavingMode"}

TARGETS = [  # (family, tag, rated, port, es firmware)
    ("ET", "ETU", 10000, 8899, ""), ("ET", "ETT", 10000, 502, ""), ("DT", "DTU", 0, 8899, ""), ("DT", "DSN", 0, 502, ""),
    ("ES", "ESU", 0, 8899, "1010A"), ("ES", "ESU", 0, 8899, "2224E"),
]


def target_inv(fam, tag, rated, port, fw, refused=None):
    serial = serial_for(tag) if fam != "ES" else "95048ESU000W0000"
    sim = {"regs": device_regs(fam, serial, rated), "refused": refused or []}
    if fam == "ES":
        sim["aa55"] = {"info": list(es_info(serial, fw))}
    return {"family": fam, "port": port, "sim": sim, "retries": 0}


def settings_of(target) -> list[dict]:
    """Listing of settings() of a target after read_device_info (dry run on the live object)."""
    from .inv_driver import run_program
    tr = run_program({"inv": [target_inv(*target)], "calls": [{"api": "read_device_info"}, {"api": "table:settings"}]})
    for ev in tr["ev"]:
        if ev["e"] == "RET" and ev.get("api") == "table:settings":
            return ev["table"]
    raise engine.MachineryError("no settings table")


def writable(target, e: dict) -> bool:
    if e["ty"] not in SETTABLE:
        return False
    if target[0] == "ES":
        return e["id"].startswith("eco_mode")      # the register-addressed settings of ES
    return True


FIELD_BYTES = [0, 1, 23, 24, 59, 60, 99, 100, 101, 127, 128, 0x55, 0xC1, 0xF9, 0xFA, 0xFE, 0xFF]


def field_sweep(base_hex: str, full: bool) -> list[dict]:
    """One byte of a well-formed group at a time set to every boundary value (thorough: to every value): the encodable domain
    and the encoding of each result are decided by Decode.tla, not here."""
    base = bytes.fromhex(base_hex)
    out = []
    for pos in range(len(base)):
        for v in (range(256) if full else FIELD_BYTES):
            b = bytearray(base)
            b[pos] = v
            out.append({"bytes": list(b)})
    return out


def sample_values(e: dict, rnd: random.Random, n_random: int) -> list:
    ty = e["ty"]
    if ty == "Integer":
        base = [0, 1, 2, 100, 255, 256, 32767, 32768, 65534, 65535]
        return base + [rnd.randrange(65536) for _ in range(n_random)]
    if ty == "IntegerS":
        base = [-32768, -1, 0, 1, 32767]
        return base + [rnd.randint(-32768, 32767) for _ in range(n_random)]
    if ty in ("Voltage", "Current"):
        return [{"frac": [n, 10]} for n in [0, 1, 5, 10, 999, 2305, 32768, 65534] + [rnd.randrange(65535) for _ in range(n_random)]]
    if ty == "CurrentS":
        return [{"frac": [n, 10]} for n in [-32768, -15, -1, 0, 1, 15, 32767] + [rnd.randint(-32768, 32767) for _ in range(n_random)]]
    if ty == "Decimal":
        sc = e["scale"]
        return [{"frac": [n, sc]} for n in [-32768, -100, -57, -1, 0, 1, 57, 29, 58, 99, 100, 101, 32767] +
                [rnd.randint(-32768, 32767) for _ in range(n_random)]]
    if ty == "Long":
        return [0, 1, 65535, 65536, 9600, 115200, 2 ** 31 - 1, 2 ** 31, 2 ** 32 - 2] + [rnd.randrange(2 ** 32) for _ in range(n_random)]
    if ty in ("ByteH", "ByteL"):
        return [-128, -1, 0, 1, 2, 127] + [rnd.randint(-128, 127) for _ in range(n_random)]
    if ty == "Timestamp":
        # the year travels in one byte: 2000..2255 is the encodable domain
        return [{"dt": [2000, 1, 1, 0, 0, 0]}, {"dt": [2024, 2, 29, 23, 59, 59]}, {"dt": [2099, 12, 31, 12, 0, 1]},
                {"dt": [2100, 1, 1, 0, 0, 0]}, {"dt": [2127, 6, 15, 7, 8, 9]}, {"dt": [2128, 2, 29, 1, 2, 3]},
                {"dt": [2200, 3, 31, 23, 0, 59]}, {"dt": [2255, 12, 31, 23, 59, 59]}] + \
            [{"dt": [2000 + rnd.randrange(256), rnd.randint(1, 12), rnd.randint(1, 28), rnd.randrange(24), rnd.randrange(60),
                     rnd.randrange(60)]} for _ in range(n_random)]
    if ty == "EcoModeV1":
        # day byte: 7 bits, or 0xff = every day (the whole byte travels)
        out = ["0d1e0e28ffc4ff1a", "0000173bff9cff7f", "0000173b0064ff7f", "3000300000640000", "0000173bff9cffff", "01020304000a00ff",
               "173b173b006400ff"]
        for _ in range(n_random):
            out.append(bytes([rnd.randrange(24), rnd.randrange(60), rnd.randrange(24), rnd.randrange(60)]).hex() +
                       (rnd.randint(-100, 100) & 0xFFFF).to_bytes(2, "big").hex() + rnd.choice(["00", "ff"]) +
                       bytes([rnd.choice([rnd.randrange(128), rnd.randrange(128), 0xFF])]).hex())
        sweep = field_sweep("0d1e0e28ffc4ff1a", n_random > 8) if e["id"].endswith(("_1", "mode")) else []
        return [{"bytes": list(bytes.fromhex(x))} for x in out] + sweep
    if ty in ("EcoModeV2", "PeakShavingMode"):
        out = ["0000173bff7fffce00640000", "0000173bff7f003200640000", "0000173bf97ffe0c00640fff", "300030000000006400640000",
               "0000173bfc7f006400640000", "0300080006fefd12005fcfff", "0000173bffffffce00640000", "0102030400ff000a00320fff"]
        for _ in range(n_random):
            st = rnd.choice([0, 1, 2, 3, 4, 5, 6])
            oo = rnd.choice([st, 255 - st])
            pw = rnd.randint(-100, 100) if st != 6 else rnd.randint(-1000, 1000)
            out.append(bytes([rnd.randrange(24), rnd.randrange(60), rnd.randrange(24), rnd.randrange(60), oo,
                              rnd.choice([rnd.randrange(128), rnd.randrange(128), 0xFF])]).hex() +
                       (pw & 0xFFFF).to_bytes(2, "big").hex() + rnd.randint(0, 100).to_bytes(2, "big").hex() +
                       rnd.choice([0, 0x0FFF, rnd.randrange(1, 0x0FFF)]).to_bytes(2, "big").hex())
        sweep = field_sweep("0d1e0e28ff1affc400500000", n_random > 8) if e["id"].endswith(("_1", "mode")) else []
        return [{"bytes": list(bytes.fromhex(x))} for x in out] + sweep
    return []


def gen_span_programs(tier: str, rnd: random.Random) -> list[dict]:
    quick = tier == "quick"
    progs = []
    for target in TARGETS:
        lst = settings_of(target)
        calls = [{"api": "read_device_info"}, {"api": "table:settings"}]
        for e in lst:
            if not writable(target, e):
                continue
            for v in sample_values(e, rnd, 8 if quick else 40):
                regs = {}
                for a in range(e["addr"] - 1, e["addr"] + 8):
                    regs[str(a)] = rnd.randrange(65536)
                calls.append({"sim": {"set": regs}})
                det = {"setting": e["id"], "type": e["ty"], "port": target[3]}
                calls.append({"api": "write_setting", "args": [e["id"], v], "span": {"decode": False, "detail": det}})
                if not (target[0] == "ES" and e["id"].endswith("_switch")):     # ES cannot read its switches back individually
                    calls.append({"api": "read_setting", "args": [e["id"]], "span": {"decode": False, "pair": False, "detail": det}})
        # split into programs of bounded length
        head = calls[:2]
        body = calls[2:]
        for i in range(0, len(body), 300):
            progs.append({"inv": [target_inv(*target)], "calls": head + body[i:i + 300], "cfg": {"target": list(target)}})
    return progs


# ------------------------------------------------------------------------------------------------
# (T) complete value domains
# ------------------------------------------------------------------------------------------------
def domain_job(args) -> dict:
    target, sid, table_path, seed, step = args
    from .inv_driver import World, make_inverter
    import asyncio
    from .vloop import run
    rnd = random.Random(seed)
    with open(table_path) as f:
        table = json.load(f)
    prog = {"inv": [target_inv(*target)], "calls": []}
    world = World(prog)
    world.delay = 0
    fr = "tcp" if target[3] == 502 else "rtu"
    sim = world.add_sim(prog["inv"][0]["sim"], fr)
    inv = make_inverter(world, 0, prog["inv"][0])
    world.invs.append(inv)
    bad = []
    stats = {"n": 0, "skipped": 0}

    async def main():
        await inv.read_device_info()
        setting = {s.id_: s for s in inv.settings()}[sid]
        e = entry(setting)
        first_of = {}
        for w in range(0, 65536, step):
            want = table[w]
            if want["k"] != "num":
                stats["skipped"] += 1
                continue
            key = json.dumps(want["a"])
            if e["ty"] not in ("ByteH", "ByteL"):
                if key in first_of:        # decoding is not injective here (sentinel): the smaller word is the encoding
                    stats["skipped"] += 1
                    continue
                first_of[key] = w
            m = 0
            for lb in want["a"][2:]:
                m = m * 65536 + lb
            n = -m if want["a"][1] else m
            value = n / want["a"][0] if want["a"][0] != 1 else n
            prior = w if e["ty"] in ("ByteH", "ByteL") else rnd.randrange(65536)
            own = rnd.choice((0x00, 0xFF, rnd.randrange(256), rnd.randrange(256)))    # previous content of the setting's own byte
            if e["ty"] == "ByteH":
                prior = (own << 8) | (w & 0xFF)
            elif e["ty"] == "ByteL":
                prior = (w & 0xFF00) | own
            sim.poke(e["addr"], prior)
            others = {a: sim.get(a) for a in (e["addr"] - 1, e["addr"] + 1)}
            nlog = len(sim.log)
            try:
                await inv.write_setting(sid, value)
            except Exception as ex:  # noqa
                bad.append({"w": w, "clause": "C17.OneWrite", "why": "write_setting raised " + type(ex).__name__})
                continue
            reqs = [rq for rq, _ in sim.log[nlog:]]
            writes = []
            for rq in reqs:
                if rq[:4] == b"\xaa\x55\xc0\x7f":
                    if rq[4] == 2:
                        writes.append(("aa55", int.from_bytes(rq[7:9], "big"), rq[10:-2] if rq[9] != 1 or len(rq) != 14 else rq[10:12]))
                else:
                    p = F.parse_request(fr, rq)
                    if p and p["fn"] == 6:
                        writes.append((fr, p["reg"], p["n"].to_bytes(2, "big")))
                    elif p and p["fn"] == 16:
                        writes.append((fr, p["reg"], bytes(p["payload"])))
            stats["n"] += 1
            if len(writes) != 1:
                bad.append({"w": w, "clause": "C17.OneWrite", "why": f"{len(writes)} writes"})
                continue
            _, reg, data = writes[0]
            if reg != e["addr"] or len(data) != 2:
                bad.append({"w": w, "clause": "C17.Address", "why": f"reg {reg} len {len(data)}"})
            elif int.from_bytes(data, "big") != w:
                if len(bad) < 30:
                    bad.append({"w": w, "clause": "C17.Encoding", "why": f"value {value!r} sent as {data.hex()} want {w:04x}"})
                stats["enc_bad"] = stats.get("enc_bad", 0) + 1
                continue
            if any(sim.get(a) != v for a, v in others.items()):
                bad.append({"w": w, "clause": "C17.Address", "why": "neighbour register changed"})
            if target[0] == "ES" and sid.endswith("_switch"):
                continue                    # ES cannot read its switches back individually: write clauses only
            try:
                got = val(await inv.read_setting(sid))
            except ValueError:
                got = {"k": "none", "a": [], "s": ""}
            if not val_eq(want, got):
                bad.append({"w": w, "clause": "C17.ReadBack", "why": f"wrote {value!r} read {got}"})

    st, _ = run(world.loop, main())
    try:
        world.loop.close()
    except Exception:  # noqa
        pass
    if st != "ok":
        raise engine.MachineryError("domain job did not finish")
    lg = sim.export_log()
    lg["ops"] = lg["ops"][:3000]
    return {"target": list(target), "id": sid, "bad": bad[:40], "stats": stats, "oplog": lg}


def run_domains(run: Run, tier: str, rnd: random.Random) -> None:
    quick = tier == "quick"
    ts = TableSet()
    jobs = []
    work = []
    seen = set()
    for target in TARGETS:
        for e in settings_of(target):
            if not writable(target, e) or e["ty"] not in ("Integer", "IntegerS", "Voltage", "Current", "CurrentS", "Decimal", "ByteH", "ByteL"):
                continue
            sig = (target[0], target[3], e["ty"], e["scale"])
            if quick and (sig in seen or target[3] == 502 and e["ty"] == "Integer"):
                continue
            if sig in seen and not quick and len([1 for w in work if w[2] == sig]) >= 3:
                continue
            seen.add(sig)
            key = (e["ty"], e["scale"])
            if key not in {(j["ty"], j["scale"]) for j in jobs}:
                jobs.append({"ty": e["ty"], "scale": e["scale"], "lab": 0, "base": [0, 0], "pos": 1, "out": ""})
            jk = [k for k, j in enumerate(jobs) if (j["ty"], j["scale"]) == key][0]
            work.append((target, e["id"], sig, jk))
    d = os.path.join(run.workdir, "enc_tables")
    os.makedirs(d, exist_ok=True)
    for k, j in enumerate(jobs):
        j["out"] = os.path.join(d, f"t{k}.json")
    jp = os.path.join(d, "jobs.json")
    tlc.write_json(jp, {"jobs": jobs, "labels": []})
    r = tlc.run_tlc("ExportDecode", env={"VERIF_JOBS": jp}, workers=16, timeout=3000, heap="12g")
    if not r["ok"]:
        raise engine.MachineryError("ExportDecode failed\n" + r["stdout"][-3000:])
    run.cov["states"] += r.get("distinct", 0)
    run.cov["transitions"] += r.get("generated", 0)
    step = 1
    args = [(target, sid, jobs[jk]["out"], run.seed * 31 + n, step) for n, (target, sid, sig, jk) in enumerate(work)]
    res = engine.parallel_map("harness.checks_settings", "domain_job", args, procs=16, chunk=1)
    for x in res:
        run.cov["evaluations"] += x["stats"]["n"]
        run.cov["distinct_nontrivial"] += x["stats"]["n"]
        seen_clause = set()
        for b in x["bad"]:
            if b["clause"] in seen_clause:
                continue
            seen_clause.add(b["clause"])
            detail = {"family": x["target"][0], "setting": x["id"], "port": x["target"][3], "why": b["why"].split(" sent as")[0][:40]}
            run.violation(b["clause"], {"family": x["target"][0], "setting": x["id"], "port": x["target"][3]},
                          {"domain": {"target": x["target"], "id": x["id"], "w": b["w"], "why": b["why"]}})
    run.cov["families"]["domain_settings"] = len(work)
    from . import checks_sim
    checks_sim.validate_logs(run, [x.pop("oplog") for x in res], sample=12 if quick else 200, seed=run.seed)
    if res:
        run.cov["samples"].append({"domain": {k: v for k, v in res[0].items() if k != "bad"}})


RULE = ("(T) for one setting per (family, transport, type, scale) every raw word of the 16-bit domain: the documented value of the word "
        "(table written by TLC from Decode.tla) is written through write_setting on a simulated inverter with random prior contents, "
        "the recorded write must be single, address the setting's register and carry the word, neighbours unchanged, read_setting "
        "returns the value; (S) every writable setting x boundary + random values x random prior contents x framings judged by "
        "TraceDecode.tla; non-trivial = a write was transmitted; distinct = distinct (setting, value)")


def check(prop: str, tier: str, seed: int) -> int:
    run = Run(prop, tier, seed, "exploration")
    run.cov["rule"] = RULE
    run.assumptions = ["the simulated inverter applies Modbus function 06/16 and the AA55 register writes to a register file; its behaviour "
                       "is not trusted: the write clauses are judged on the recorded request bytes, and samples of its logs are validated "
                       "against spec/Registers.tla (TraceRegisters.tla) in every run",
                       "encodable domain and encoding per type: spec/Decode.tla (Encode); values are handed to the library as float(n/den)",
                       "TLC, SANY and the CommunityModules are trusted"]
    rnd = random.Random(seed)
    own = (prop + ".",)
    from . import checks_sim
    checks_sim.model_check(run, tier)
    run_domains(run, tier, rnd)
    progs = gen_span_programs(tier, rnd)
    traces = engine.parallel_map("harness.checks_decode", "run_program_values", progs, procs=16, chunk=1)
    for tr in traces:
        if tr["status"] != "ok":
            raise engine.MachineryError("program did not finish: " + tr["status"])
    judge_spans(run, traces, own, batch_spans=600)
    return run.finish()
