"""Maps property ids to their checks."""
from __future__ import annotations

import json
import os

from . import tlc

PROTO = {"C04", "C05", "C06", "C07", "C08", "C09", "C10"}
WIRE = {"C01", "C02", "C03"}
DECODE = {"C11", "C12", "C13"}
INVERTER = {"C14", "C15", "C16", "C18"}
SETTINGS = {"C17"}
MODES = {"C19"}
SHUFFLE = {"C20"}


def check(prop: str, tier: str, seed: int) -> int:
    if prop in PROTO:
        from . import checks_proto
        return checks_proto.check(prop, tier, seed)
    if prop in WIRE:
        from . import checks_wire
        return checks_wire.check(prop, tier, seed)
    if prop in DECODE:
        from . import checks_decode
        return checks_decode.check(prop, tier, seed)
    if prop in INVERTER:
        from . import checks_inverter
        return checks_inverter.check(prop, tier, seed)
    if prop in SETTINGS:
        from . import checks_settings
        return checks_settings.check(prop, tier, seed)
    if prop in MODES:
        from . import checks_modes
        return checks_modes.check(prop, tier, seed)
    if prop in SHUFFLE:
        from . import checks_shuffle
        return checks_shuffle.check(prop, tier, seed)
    raise SystemExit(f"no check registered for {prop}")


def setup() -> int:
    mods = [f[:-4] for f in sorted(os.listdir(tlc.SPEC)) if f.endswith(".tla")]
    bad = 0
    for m in mods:
        ok, out = tlc.sany(m)
        print(("ok   " if ok else "FAIL ") + m)
        if not ok:
            print(out[-1500:])
            bad += 1
    import goodwe  # noqa: F401  (the harness imports the library from /repo)
    return 2 if bad else 0


def replay(prop: str, path: str) -> int:
    with open(path) as f:
        obj = json.load(f)
    prop = prop or obj["property"]
    rp = obj["replay"]
    if "scenario" in rp:
        from . import checks_proto, engine
        run = engine.Run(prop, "replay", 0, "model_checking")
        checks_proto.execute_and_judge(run, [rp["scenario"]], (prop + ".",))
        for v in run.violations:
            print(f"VIOLATION property={prop} replay={path} clause={v['clause']}")
        return 1 if run.violations else 0
    if "case" in rp:
        from . import checks_wire
        return checks_wire.replay_case(prop, obj)
    if "program" in rp:
        # a program of public calls on simulated inverters, judged span by span by TraceDecode.tla
        from . import checks_decode, engine
        run = engine.Run(prop, "replay", 0, "model_checking")
        tr = engine.forked(checks_decode.run_program_values, rp["program"])
        if tr["status"] != "ok":
            print("MACHINERY: program did not finish: " + tr["status"])
            return 2
        checks_decode.judge_spans(run, [tr], (prop + ".",))
        if rp["program"].get("cfg", {}).get("fam") in ("ET", "DT") and "bat" in rp["program"].get("cfg", {}):
            # configuration programs are also compared with the prediction of Inverter.tla (C15.SupportedPresent)
            from . import checks_model
            checks_model.compare_predictions(run, [rp["program"]], [tr])
        seen = set()
        for v in run.violations:
            if v["clause"] not in seen:
                seen.add(v["clause"])
                print(f"VIOLATION property={prop} replay={path} clause={v['clause']}")
        return 1 if run.violations else 0
    if "shufflejob" in rp:
        from . import checks_shuffle
        return checks_shuffle.replay_job(prop, obj, path)
    print("this replay artefact documents the failing case (" + ", ".join(rp) + "); re-run the check to reproduce it")
    return 2
