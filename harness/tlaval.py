"""Parser for TLA+ values as TLC prints them (states in error traces / simulation files)."""
from __future__ import annotations

import re

_TOK = re.compile(r'\s*(<<|>>|\|->|:>|@@|\[|\]|\{|\}|\(|\)|,|"(?:[^"\\]|\\.)*"|-?\d+|[A-Za-z_][A-Za-z0-9_!]*|\.\.)')


def tokenize(s: str):
    pos = 0
    out = []
    while pos < len(s):
        m = _TOK.match(s, pos)
        if not m:
            if s[pos:].strip() == "":
                break
            raise ValueError("cannot tokenize at: " + s[pos:pos + 40])
        out.append(m.group(1))
        pos = m.end()
    return out


class _P:
    def __init__(self, toks):
        self.t = toks
        self.i = 0

    def peek(self):
        return self.t[self.i] if self.i < len(self.t) else None

    def next(self):
        tok = self.t[self.i]
        self.i += 1
        return tok

    def expect(self, tok):
        got = self.next()
        if got != tok:
            raise ValueError(f"expected {tok} got {got}")

    def value(self):
        v = self.atom()
        # function written as (a :> b @@ c :> d)
        return v

    def atom(self):
        tok = self.next()
        if tok == "<<":
            items = []
            if self.peek() == ">>":
                self.next()
                return items
            while True:
                items.append(self.value())
                if self.peek() == ",":
                    self.next()
                    continue
                self.expect(">>")
                return items
        if tok == "{":
            items = []
            if self.peek() == "}":
                self.next()
                return items
            while True:
                items.append(self.value())
                if self.peek() == ",":
                    self.next()
                    continue
                self.expect("}")
                return items
        if tok == "[":
            d = {}
            while True:
                key = self.next()
                self.expect("|->")
                d[key] = self.value()
                if self.peek() == ",":
                    self.next()
                    continue
                self.expect("]")
                return d
        if tok == "(":
            d = {}
            while True:
                k = self.value()
                self.expect(":>")
                d[_hashable(k)] = self.value()
                if self.peek() == "@@":
                    self.next()
                    continue
                self.expect(")")
                return d
        if tok.startswith('"'):
            return tok[1:-1]
        if tok in ("TRUE", "FALSE"):
            return tok == "TRUE"
        if re.fullmatch(r"-?\d+", tok):
            v = int(tok)
            if self.peek() == "..":
                self.next()
                hi = int(self.next())
                return list(range(v, hi + 1))
            return v
        return tok  # model value / identifier


def _hashable(k):
    return tuple(k) if isinstance(k, list) else k


def parse_value(s: str):
    p = _P(tokenize(s))
    v = p.value()
    return v


_STATE_HDR = re.compile(r"^State (\d+): <?(.*?)>?$", re.M)


def parse_trace(stdout: str) -> list[dict]:
    """Parse the states of a TLC error trace: list of {"_n", "_action", var: value…}."""
    states = []
    parts = _STATE_HDR.split(stdout)
    # parts: [pre, n1, action1, body1, n2, action2, body2, ...]
    for k in range(1, len(parts) - 2, 3):
        n, action, body = int(parts[k]), parts[k + 1], parts[k + 2]
        # body ends at blank line followed by non-state text
        body = body.split("\n\n")[0]
        st = {"_n": n, "_action": action.split(" line")[0]}
        for mm in re.finditer(r"^/\\ (\w+) = (.*?)(?=^/\\ \w+ = |\Z)", body, re.M | re.S):
            try:
                st[mm.group(1)] = parse_value(mm.group(2).strip())
            except Exception as ex:  # noqa
                st[mm.group(1)] = "UNPARSED: " + str(ex)
        states.append(st)
    return states
