"""Common machinery of the checks: batching traces through a TLC monitor, verdict bookkeeping,
known findings, replay files, evidence."""
from __future__ import annotations

import concurrent.futures as cf
import hashlib
import json
import multiprocessing as mp
import os
import shutil
import sys
import time

from . import tlc
from .record import Batch, check_format

VERIF = tlc.VERIF
OUT = tlc.OUT


class MachineryError(Exception):
    """Something in the verification machinery itself failed (exit 2, never a verdict)."""


# --------------------------------------------------------------------------------------------
# running scenarios on the real code in worker processes
# --------------------------------------------------------------------------------------------
def _run_chunk(args):
    fn_mod, fn_name, chunk = args
    mod = __import__(fn_mod, fromlist=[fn_name])
    fn = getattr(mod, fn_name)
    return [fn(x) for x in chunk]


def parallel_map(fn_mod: str, fn_name: str, items: list, procs: int = 16, chunk: int = 50) -> list:
    if not items:
        return []
    chunks = [items[i:i + chunk] for i in range(0, len(items), chunk)]
    if procs <= 1 or len(chunks) == 1:
        out = []
        for c in chunks:
            out.extend(_run_chunk((fn_mod, fn_name, c)))
        return out
    ctx = mp.get_context("fork")
    with ctx.Pool(min(procs, len(chunks))) as pool:
        res = pool.map(_run_chunk, [(fn_mod, fn_name, c) for c in chunks])
    out = []
    for r in res:
        out.extend(r)
    return out


def forked(fn, *args):
    """Run fn(*args) in a forked child (pristine copy of the module state of the library) and return its result."""
    import pickle
    r, w = os.pipe()
    pid = os.fork()
    if pid == 0:
        try:
            os.close(r)
            try:
                payload = pickle.dumps(("ok", fn(*args)))
            except BaseException as ex:  # noqa
                payload = pickle.dumps(("err", repr(ex)))
            with os.fdopen(w, "wb") as f:
                f.write(payload)
        finally:
            os._exit(0)
    os.close(w)
    with os.fdopen(r, "rb") as f:
        data = f.read()
    os.waitpid(pid, 0)
    st, val = pickle.loads(data)
    if st != "ok":
        raise MachineryError("forked run failed: " + val)
    return val


# --------------------------------------------------------------------------------------------
# judging protocol traces with TraceProtocol.tla
# --------------------------------------------------------------------------------------------
def _bytes_default(o):
    if isinstance(o, (bytes, bytearray)):
        return list(o)
    raise TypeError(type(o))


def judge_protocol_traces(traces: list[dict], workdir: str, batch_size: int = 1500, par: int = 4) -> dict:
    """traces: output of proto_driver.run_scenario.  Returns {"verdicts": [[(clause, idx)…] per trace],
    "states", "transitions", "wall_s"}."""
    os.makedirs(workdir, exist_ok=True)
    batches = []
    for b0 in range(0, len(traces), batch_size):
        b = Batch()
        for tr in traces[b0:b0 + batch_size]:
            b.add_protocol_trace(tr)
        j = b.to_json()
        check_format(j)
        path = os.path.join(workdir, f"batch_{b0 // batch_size:04d}.json")
        tlc.write_json(path, j)
        batches.append((path, len(j["traces"])))
    verdicts: list = []
    states = trans = 0
    t0 = time.time()

    def one(args):
        path, n = args
        r = tlc.run_tlc("TraceProtocol", env={"VERIF_BATCH": path}, workers=max(2, 16 // par), timeout=3600,
                        heap="6g")
        if not r["ok"]:
            raise MachineryError("TLC failed on " + path + "\n" + r["stdout"][-3000:] + r["stderr"][-2000:])
        v = tlc.parse_verdicts(r["stdout"])
        if len(v) != n:
            raise MachineryError(f"TLC printed {len(v)} verdicts for {n} traces in {path}")
        return [v[k + 1] for k in range(n)], r.get("distinct", 0), r.get("generated", 0)

    with cf.ThreadPoolExecutor(max_workers=par) as ex:
        for vs, st, tr in ex.map(one, batches):
            verdicts.extend(vs)
            states += st
            trans += tr
    for path, _ in batches:
        os.remove(path)
    return {"verdicts": verdicts, "states": states, "transitions": trans, "wall_s": time.time() - t0}


# --------------------------------------------------------------------------------------------
# known findings
# --------------------------------------------------------------------------------------------
def load_known() -> dict:
    path = os.path.join(VERIF, "known_findings.json")
    if not os.path.exists(path):
        return {"findings": [], "fixed": []}
    with open(path) as f:
        return json.load(f)


def match_known(known: dict, prop: str, detail: dict):
    for kf in known.get("findings", []):
        if kf["property"] != prop:
            continue
        sig = kf["signature"]
        if all(str(detail.get(k)) == str(v) for k, v in sig.items()):
            return kf
    return None


# --------------------------------------------------------------------------------------------
# a check run
# --------------------------------------------------------------------------------------------
class Run:
    def __init__(self, prop: str, tier: str, seed: int, level: str):
        self.prop = prop
        self.tier = tier
        self.seed = seed
        self.level = level
        self.t0 = time.time()
        self.workdir = os.path.join(OUT, prop, tier if tier != "replay" else "replay_work")
        shutil.rmtree(self.workdir, ignore_errors=True)
        os.makedirs(self.workdir, exist_ok=True)
        self.replay_dir = os.path.join(OUT, prop, "replay")
        os.makedirs(self.replay_dir, exist_ok=True)
        self.known = load_known()
        self.violations: list[dict] = []
        self.known_hits: dict[str, dict] = {}
        self.observations: dict[str, int] = {}
        self.notes: list[str] = []
        self.cov = {"evaluations": 0, "distinct_nontrivial": 0, "samples": [], "states": 0, "transitions": 0,
                    "traces_validated_against_impl": 0, "rule": "", "families": {}, "model_checking": []}
        self.assumptions: list[str] = []

    # -- verdicts ---------------------------------------------------------------------------
    def violation(self, clause: str, detail: dict, replay_obj: dict):
        """A property clause failed on an execution of the real code."""
        kf = match_known(self.known, self.prop, dict(detail, clause=clause))
        if kf is not None:
            key = json.dumps(kf["signature"], sort_keys=True)
            self.known_hits.setdefault(key, kf)
            return
        h = hashlib.sha1(json.dumps(replay_obj, sort_keys=True, default=_bytes_default).encode()).hexdigest()[:12]
        path = os.path.join(self.replay_dir, f"{h}.json")
        if len(self.violations) < 200:
            with open(path, "w") as f:
                json.dump({"property": self.prop, "clause": clause, "detail": detail, "replay": replay_obj}, f,
                          default=_bytes_default)
        self.violations.append({"clause": clause, "detail": detail, "replay": path})

    def observe(self, clause: str):
        self.observations[clause] = self.observations.get(clause, 0) + 1

    def add_mc(self, name: str, r: dict):
        self.cov["states"] += r.get("distinct", 0)
        self.cov["transitions"] += r.get("generated", 0)
        self.cov["model_checking"].append({"instance": name, "distinct_states": r.get("distinct"),
                                           "states_generated": r.get("generated"), "depth": r.get("depth"),
                                           "wall_s": round(r.get("wall_s", 0), 1), "ok": r.get("ok")})

    # -- finishing --------------------------------------------------------------------------
    def finish(self) -> int:
        seen = set()
        for v in self.violations:
            key = (v["clause"], json.dumps(v["detail"], sort_keys=True, default=str))
            if key in seen:
                continue
            seen.add(key)
            if len(seen) <= 25:
                print(f"VIOLATION property={self.prop} replay={v['replay']} clause={v['clause']} "
                      f"detail={json.dumps(v['detail'], default=str)}")
        if len(seen) > 25:
            print(f"… {len(seen) - 25} further distinct violations of {self.prop} not listed")
        for kf in self.known_hits.values():
            print(f"KNOWN-FINDING: property={self.prop} {kf['what']}")
        for c, n in sorted(self.observations.items()):
            print(f"OBSERVATION: {c} seen in {n} executions (outside the quantifier of the listed properties)")
        for n in self.notes:
            print("NOTE: " + n)
        ev = {
            "property_id": self.prop, "tier": self.tier, "seed": self.seed, "level": self.level,
            "coverage": self.cov, "assumptions": self.assumptions,
            "wall_s": round(time.time() - self.t0, 2), "violations": len(self.violations),
            "known_findings_hit": [kf["what"] for kf in self.known_hits.values()],
            "observations": self.observations,
        }
        if self.cov["distinct_nontrivial"] < 2 and self.cov["evaluations"] > 0:
            pass
        # runs against a scratch copy of the library (self-tests) never touch the registered evidence
        alt = os.environ.get("VERIF_REPO", "/repo") != "/repo" or self.tier == "replay"
        evdir = os.path.join(OUT, "evidence_alt") if alt else os.path.join(VERIF, "evidence")
        os.makedirs(evdir, exist_ok=True)
        with open(os.path.join(evdir, f"{self.prop}.json"), "w") as f:
            json.dump(ev, f, indent=1, default=_bytes_default)
        print(f"{self.prop} {self.tier}: evaluations={self.cov['evaluations']} "
              f"traces={self.cov['traces_validated_against_impl']} states={self.cov['states']} "
              f"violations={len(self.violations)} known={len(self.known_hits)} wall={ev['wall_s']}s")
        return 1 if self.violations else 0


def run_mc(run: Run, module: str, cfgs: list[str], timeout: int = 3000) -> None:
    """Exhaustive TLC runs of design-model instances (up to four at a time); a failure is a machinery/design error."""
    import concurrent.futures as cf
    par = min(4, max(1, len(cfgs)))
    with cf.ThreadPoolExecutor(max_workers=par) as ex:
        results = list(ex.map(lambda cfg: tlc.run_tlc(module, cfg=cfg, workers=max(4, 16 // par), timeout=timeout, heap="6g"), cfgs))
    for cfg, r in zip(cfgs, results):
        run.add_mc(cfg, r)
        if not r.get("ok"):
            raise MachineryError(f"design model instance {cfg} does not satisfy its invariants "
                                 f"({r.get('invariant_violated')}); see bin/mc {cfg}\n" + r["stdout"][-1500:])
