"""C01 C02 C03: the frame validators, command constructors and the Modbus/TCP transaction counter,
judged by TraceWire.tla (oracle: Wire.tla evaluated by TLC)."""
from __future__ import annotations

import os
import random
import sys

sys.path.insert(0, os.environ.get("VERIF_REPO", "/repo"))

from . import engine, frames as F, tlc  # noqa: E402
from .engine import Run  # noqa: E402


def _lib():
    import goodwe.protocol as P
    from goodwe.exceptions import PartialResponseException, RequestRejectedException
    return P, PartialResponseException, RequestRejectedException


# ------------------------------------------------------------------------------------------------
# commands
# ------------------------------------------------------------------------------------------------
def make(cmd: dict):
    """Build the library's command object for a spec-level command record through the public constructors."""
    P, _, _ = _lib()
    fr, op = cmd["fr"], cmd["op"]
    if fr == "rtu":
        if op == "read":
            return P.ModbusRtuReadCommand(cmd["addr"], cmd["reg"], cmd["n"])
        if op == "write":
            return P.ModbusRtuWriteCommand(cmd["addr"], cmd["reg"], cmd["n"])
        return P.ModbusRtuWriteMultiCommand(cmd["addr"], cmd["reg"], bytes(cmd["payload"]))
    if fr == "tcp":
        if op == "read":
            return P.ModbusTcpReadCommand(cmd["addr"], cmd["reg"], cmd["n"])
        if op == "write":
            return P.ModbusTcpWriteCommand(cmd["addr"], cmd["reg"], cmd["n"])
        return P.ModbusTcpWriteMultiCommand(cmd["addr"], cmd["reg"], bytes(cmd["payload"]))
    if op == "read":
        return P.Aa55ReadCommand(cmd["reg"], cmd["n"])
    if op == "write":
        return P.Aa55WriteCommand(cmd["reg"], cmd["n"])
    if op == "wmulti":
        return P.Aa55WriteMultiCommand(cmd["reg"], bytes(cmd["payload"]))
    return P.Aa55ProtocolCommand(bytes(cmd["payload"]).hex(), "%04x" % cmd["rt"])


def make_via_protocol(cmd: dict):
    """The command as UdpInverterProtocol / TcpInverterProtocol.read_command / write_command / write_multi_command build it."""
    P, _, _ = _lib()
    if cmd["fr"] not in ("rtu", "tcp"):
        return None
    proto = (P.UdpInverterProtocol if cmd["fr"] == "rtu" else P.TcpInverterProtocol)("inverter", 8899, cmd["addr"], 1, 0)
    if cmd["op"] == "read":
        return proto.read_command(cmd["reg"], cmd["n"])
    if cmd["op"] == "write":
        return proto.write_command(cmd["reg"], cmd["n"])
    return proto.write_multi_command(cmd["reg"], bytes(cmd["payload"]))


def C(fr, op, addr=0xF7, reg=0, n=0, rt=-1, payload=()):
    if fr == "aa55":
        addr = 127
        if op == "read":
            rt = 0x019A
        elif op in ("write", "wmulti"):
            rt = 0x02B9
    if op == "wmulti":
        n = len(payload) // 2
    return {"fr": fr, "op": op, "addr": addr, "reg": reg, "n": n, "rt": rt, "payload": list(payload)}


def valid_answer(cmd: dict, payload: bytes | None = None, tx: bytes = b"\x12\x34") -> bytes:
    fr, op = cmd["fr"], cmd["op"]
    if fr == "rtu":
        if op == "read":
            return F.rtu_read_answer(cmd["addr"], payload if payload is not None else bytes(2 * cmd["n"]))
        return F.rtu_write_answer(cmd["addr"], 6 if op == "write" else 16, cmd["reg"], cmd["n"])
    if fr == "tcp":
        if op == "read":
            return F.tcp_read_answer(tx, cmd["addr"], payload if payload is not None else bytes(2 * cmd["n"]))
        return F.tcp_write_answer(tx, cmd["addr"], 6 if op == "write" else 16, cmd["reg"], cmd["n"])
    return F.aa55_answer(cmd["rt"], payload if payload is not None else bytes(8))


def outcome(cmdobj, data: bytes) -> dict:
    P, Partial, Rejected = _lib()
    out = {"out": "", "len": 0, "exp": 0, "msg": "", "exc": "", "pl": None}
    try:
        ok = cmdobj.validator(data)
        out["out"] = "accept" if ok is True else ("refuse" if ok is False else "raise")
        if ok is True:
            out["pl"] = bytes(P.ProtocolResponse(data, cmdobj).response_data())
        elif ok is not False:
            out["exc"] = "returned " + repr(ok)
    except Partial as ex:
        out.update(out="partial", len=ex.length, exp=ex.expected)
    except Rejected as ex:
        out.update(out="rejected", msg=str(ex.message))
    except Exception as ex:  # noqa
        out.update(out="raise", exc=type(ex).__name__)
    return out


# ------------------------------------------------------------------------------------------------
# mutations
# ------------------------------------------------------------------------------------------------
def mutations(frame: bytes, rnd: random.Random, cmd: dict, n_random: int, full_flips: bool) -> list[tuple[str, bytes]]:
    out = [("valid", frame)]
    for k in range(len(frame)):
        out.append(("trunc", frame[:k]))
    bits = range(8 * len(frame))
    if not full_flips and len(frame) > 40:
        bits = sorted(set(list(range(8 * 12)) + list(range(8 * (len(frame) - 4), 8 * len(frame))) +
                          rnd.sample(range(8 * len(frame)), 64)))
    for b in bits:
        m = bytearray(frame)
        m[b // 8] ^= 1 << (b % 8)
        out.append(("flip", bytes(m)))
    out.append(("ext", frame + b"\x00"))
    out.append(("ext", frame + b"\xff\xff"))
    out.append(("ext", frame + frame))
    # more bytes behind the frame than the frame is long (the statement of C02 puts no bound on trailing bytes)
    out.append(("ext", frame + frame + b"\x00"))
    out.append(("ext", frame + frame + frame))
    out.append(("ext", frame + bytes(rnd.randrange(256) for _ in range(len(frame) + 1 + rnd.randrange(40)))))
    out.append(("ext", frame + b"\xff" * 300))
    out.append(("lead", b"\x00" + frame))
    out.append(("lead", frame[1:]))
    hdr = 3 if cmd["fr"] == "rtu" else (7 if cmd["fr"] == "tcp" else 4)
    for fn in (1, 3, 4, 6, 16, 0x83, 0x86, 0x90, 0x80, 0xFF):
        if len(frame) > hdr:
            m = bytearray(frame)
            m[hdr] = fn
            out.append(("fn", bytes(m)))
            if cmd["fr"] == "rtu":  # keep the CRC right so that only the function decides
                body = bytes(m[2:-2])
                out.append(("fncrc", bytes(m[:2]) + F.with_crc(body)))
    for pos in (hdr + 1, hdr + 2, hdr + 3, hdr + 4):
        for delta in (1, -1):
            if len(frame) > pos:
                m = bytearray(frame)
                m[pos] = (m[pos] + delta) & 0xFF
                out.append(("field", bytes(m)))
                if cmd["fr"] == "rtu":
                    out.append(("fieldcrc", bytes(m[:2]) + F.with_crc(bytes(m[2:-2]))))
    out.extend(resized(frame, rnd, cmd))
    if cmd["fr"] in ("rtu", "tcp"):
        # proper exception answers to this command (function | 0x80, every code, checksum right): never a result
        fnc = {"read": 3, "write": 6, "wmulti": 16}.get(cmd["op"], 3)
        codes = list(range(0, 13)) + [0x7F, 0x80, 0xFF] if not full_flips else range(256)
        for code in codes:
            if cmd["fr"] == "rtu":
                out.append(("excframe", F.rtu_exception(cmd["addr"], fnc, code)))
            else:
                out.append(("excframe", F.tcp_exception(frame[:2], cmd["addr"], fnc, code)))
    if cmd["fr"] == "aa55" and len(frame) >= 9:
        # well-formed AA55 frames (length and checksum right) of another response type than the command expects
        own = int.from_bytes(frame[4:6], "big")
        for rt in sorted({0x019A, 0x02B9, 0x03B6, 0x0182, 0x0186, 0x0189, 0x0000, 0xFFFF, own ^ 0x0001, own ^ 0x0100, own ^ 0x8000} - {own}):
            f = frame[:4] + rt.to_bytes(2, "big") + frame[6:-2]
            out.append(("rtype", f + (sum(f) & 0xFFFF).to_bytes(2, "big")))
    for _ in range(n_random):
        m = bytearray(frame)
        kind = rnd.randrange(4)
        if kind == 0 and m:
            for _ in range(rnd.randint(2, 5)):
                m[rnd.randrange(len(m))] ^= 1 << rnd.randrange(8)
        elif kind == 1 and m:
            i = rnd.randrange(len(m))
            del m[i]
        elif kind == 2:
            m.insert(rnd.randrange(len(m) + 1), rnd.randrange(256))
        else:
            i = rnd.randrange(len(m) + 1)
            m[i:i + rnd.randint(0, 4)] = bytes(rnd.randrange(256) for _ in range(rnd.randint(0, 4)))
        out.append(("rand", bytes(m)))
    return out


def resized(frame: bytes, rnd: random.Random, cmd: dict) -> list[tuple[str, bytes]]:
    """Answers that announce another size than the request asked for, consistent in every dependent field (byte count,
    Modbus/TCP length field, CRC / checksum recomputed) - and the half-consistent variants (byte count changed but
    payload / length field not, and vice versa)."""
    out = []
    fr, op = cmd["fr"], cmd["op"]
    if fr in ("rtu", "tcp") and op == "read":
        addr, b = cmd["addr"], 2 * cmd["n"]
        pl = frame[5:5 + b] if fr == "rtu" else frame[9:9 + b]
        tx = frame[:2]
        for d in (-3, -2, -1, 1, 2, 3, b):
            nb = b + d
            if not 0 <= nb <= 255:
                continue
            p2 = (pl + bytes(rnd.randrange(256) for _ in range(max(0, d))))[:nb]
            for cnt, body in ((nb, p2), (nb, pl), (b, p2), (nb, p2 + b"\x00")):
                if fr == "rtu":
                    out.append(("resize", b"\xaa\x55" + F.with_crc(bytes([addr, 3, cnt]) + body)))
                else:
                    for ln in (3 + len(body), 3 + b, 3 + cnt):
                        out.append(("resize", tx + b"\x00\x00" + ln.to_bytes(2, "big") + bytes([addr, 3, cnt]) + body))
    elif fr in ("rtu", "tcp"):
        fn = 6 if op == "write" else 16
        echo = cmd["reg"].to_bytes(2, "big") + (cmd["n"] & 0xFFFF).to_bytes(2, "big")
        for body in (echo[:3], echo[:2], echo + b"\x00", echo + echo[2:], echo[:2] + echo[3:] + echo[2:3]):
            if fr == "rtu":
                out.append(("resize", b"\xaa\x55" + F.with_crc(bytes([cmd["addr"], fn]) + body)))
            else:
                for ln in (2 + len(body), 6):
                    out.append(("resize", frame[:2] + b"\x00\x00" + ln.to_bytes(2, "big") + bytes([cmd["addr"], fn]) + body))
    else:
        pl = frame[7:-2]
        for d in (-2, -1, 1, 2):
            nb = len(pl) + d
            if not 0 <= nb <= 255:
                continue
            p2 = (pl + bytes(rnd.randrange(256) for _ in range(max(0, d))))[:nb]
            for cnt, body in ((nb, p2), (nb, pl), (len(pl), p2)):
                f = frame[:6] + bytes([cnt]) + body
                out.append(("resize", f + (sum(f) & 0xFFFF).to_bytes(2, "big")))
    return out


def payload_shapes(nbytes: int, rnd: random.Random, aa55: bool) -> list[bytes]:
    shapes = [bytes(nbytes), b"\xff" * nbytes, bytes((0x55, 0xAA)[i % 2] for i in range(nbytes)),
              bytes(rnd.randrange(256) for _ in range(nbytes))]
    if nbytes <= 16:
        for i in range(nbytes):
            b = bytearray(nbytes)
            b[i] = 0xFF
            shapes.append(bytes(b))
    if aa55 and nbytes >= 2:
        # byte sums just below / at / above 0x7fff and 0x8000 and 0xffff (16 bit additive checksum)
        for target in (0x7FFE, 0x7FFF, 0x8000, 0x8001, 0xFFFF, 0x10000, 0x10001):
            base = 0xAA + 0x55 + 0x7F + 0xC0 + 0x01 + 0x86 + nbytes
            need = target - base
            if 0 <= need <= 255 * nbytes:
                b = bytearray(nbytes)
                i = 0
                while need > 0:
                    b[i] = min(255, need)
                    need -= b[i]
                    i += 1
                shapes.append(bytes(b))
    return shapes


# ------------------------------------------------------------------------------------------------
# case generation
# ------------------------------------------------------------------------------------------------
def seeds(tier: str) -> list[dict]:
    quick = tier == "quick"
    counts = [1, 2, 8, 64, 124, 125] if quick else [1, 2, 3, 8, 61, 63, 64, 65, 124, 125]
    addrs = [0xF7, 0x7F, 0x00, 0xFF] if quick else [0, 1, 0x7F, 0x80, 0xF7, 0xFF]
    regs = [35100, 0x8000, 0xFFFF] if quick else [0, 1, 0xFF, 0x100, 0x7FFF, 0x8000, 0xFFFF, 35100]
    vals = [0, -1, 300, -32768, 32767] if quick else [-32768, -256, -1, 0, 1, 255, 256, 32767]
    pays = [b"\x00\x01", bytes(range(8))] if quick else [b"\x00\x01", b"\xff" * 4, bytes(range(8)), bytes(range(12)), bytes(246)]
    out = []
    for fr in ("rtu", "tcp"):
        for a in addrs:
            for n in counts:
                out.append(C(fr, "read", a, regs[0], n))
        for r in regs:
            out.append(C(fr, "read", 0xF7, r, 2))
            for v in vals:
                out.append(C(fr, "write", 0xF7, r, v))
        for p in pays:
            out.append(C(fr, "wmulti", 0xF7, regs[-1], payload=p))
    for rt in (0x0182, 0x0186, 0x0189):
        out.append(C("aa55", "raw", rt=rt, payload=bytes([rt >> 8, (rt & 0xFF) - 0x80, 0])))
    out.append(C("aa55", "read", reg=0x0701, n=4))
    out.append(C("aa55", "write", reg=0x0560, n=20))
    out.append(C("aa55", "wmulti", reg=0x0701, payload=bytes(range(8))))
    return out


def gen_validate_cases(tier: str, rnd: random.Random) -> list[dict]:
    quick = tier == "quick"
    cases = []
    for cmd in seeds(tier):
        obj = make(cmd)
        variants = [None]
        if cmd["op"] == "read" and cmd["fr"] != "aa55":
            variants = payload_shapes(2 * cmd["n"], rnd, False)[: (4 if quick else 50)]
        elif cmd["fr"] == "aa55" and cmd["op"] == "raw":
            variants = []
            for ln in ([0, 1, 8, 200, 255] if quick else [0, 1, 2, 86, 127, 128, 200, 253, 254, 255]):
                variants += payload_shapes(ln, rnd, True)[: (6 if quick else 40)]
        elif cmd["fr"] == "aa55" and cmd["op"] == "read":
            variants = payload_shapes(2 * cmd["n"], rnd, True)[:6]
        for vi, pl in enumerate(variants):
            fr_ = valid_answer(cmd, pl)
            muts = mutations(fr_, rnd, cmd, 10 if quick else 40, full_flips=not quick) if vi == 0 else [("valid", fr_)]
            if vi > 0 and cmd["fr"] == "rtu" and vi % 3 == 0:
                muts.append(("ext", fr_ + fr_))
                muts.append(("ext", fr_ + b"\x01"))
            for kind, data in muts:
                o = outcome(obj, data)
                cases.append({"kind": "validate", "cmd": cmd, "data": data, "mut": kind, **o})
    # random garbage of every length and random valid frames over the whole argument space
    for _ in range(1500 if quick else 40000):
        fr = rnd.choice(["rtu", "tcp", "aa55"])
        if fr == "aa55":
            cmd = C("aa55", "raw", rt=rnd.choice([0x0182, 0x0186, 0x0189, 0x019A, 0x02B9]), payload=b"\x01\x02\x00")
        else:
            op = rnd.choice(["read", "read", "write", "wmulti"])
            cmd = C(fr, op, rnd.randrange(256), rnd.randrange(65536),
                    rnd.randint(1, 125) if op == "read" else rnd.randint(-32768, 32767),
                    payload=bytes(rnd.randrange(256) for _ in range(2 * rnd.randint(1, 123))) if op == "wmulti" else ())
        obj = make(cmd)
        if rnd.random() < 0.5:
            ln = rnd.randint(0, 300)
            data = bytes(rnd.randrange(256) for _ in range(ln))
            kind = "garbage"
        else:
            nb = rnd.randint(0, 255) if fr == "aa55" else 2 * cmd["n"]
            data = valid_answer(cmd, bytes(rnd.randrange(256) for _ in range(nb)) if (fr == "aa55" or cmd["op"] == "read") else None)
            kind = "validrnd"
            if rnd.random() < 0.3:
                m = bytearray(data)
                if m:
                    m[rnd.randrange(len(m))] ^= 1 << rnd.randrange(8)
                data = bytes(m)
                kind = "fliprnd"
        o = outcome(obj, data)
        cases.append({"kind": "validate", "cmd": cmd, "data": data, "mut": kind, **o})
    return cases


def gen_request_cases(tier: str, rnd: random.Random) -> list[dict]:
    quick = tier == "quick"
    cases = []
    regs = sorted(set([0, 1, 0xFF, 0x100, 0x7FFF, 0x8000, 0xFFFF, 35100, 47547] +
                      [2 ** k + d for k in range(16) for d in (-1, 0, 1) if 0 <= 2 ** k + d <= 0xFFFF] +
                      [rnd.randrange(65536) for _ in range(16 if quick else 64)]))
    vals = sorted(set([-32768, -32767, -256, -255, -2, -1, 0, 1, 2, 127, 128, 255, 256, 32766, 32767] +
                      [rnd.randint(-32768, 32767) for _ in range(16 if quick else 64)]))
    cmds = []
    for fr in ("rtu", "tcp"):
        for a in range(256):
            cmds.append(C(fr, "read", a, 35100, 1 + a % 125))
            cmds.append(C(fr, "write", a, 47000 + a, (a * 257) - 32768))
        for n in range(1, 126):
            cmds.append(C(fr, "read", 0xF7, regs[n % len(regs)], n))
        for r in regs:
            cmds.append(C(fr, "read", 0xF7, r, 2))
            cmds.append(C(fr, "write", 0x7F, r, vals[r % len(vals)]))
        for v in vals:
            cmds.append(C(fr, "write", 0xF7, 45356, v))
        for ln in range(2, 248, 2):
            cmds.append(C(fr, "wmulti", 0xF7, regs[ln % len(regs)], payload=bytes(rnd.randrange(256) for _ in range(ln))))
    for r in regs[:: (4 if quick else 1)]:
        cmds.append(C("aa55", "read", reg=r, n=1 + r % 255))
        cmds.append(C("aa55", "wmulti", reg=r, payload=bytes(rnd.randrange(256) for _ in range(8))))
    for v in vals:
        cmds.append(C("aa55", "write", reg=0x0560, n=v))
    for cmd in cmds:
        try:
            obj = make(cmd)
            b = bytes(obj.request_bytes())
            cases.append({"kind": "request", "cmd": cmd, "data": b, "exc": ""})
            fobj = make_via_protocol(cmd)
            if fobj is not None:
                # the same operation built the way the inverter classes build it: through the factory methods of a protocol
                # object created for this communication address (many such objects live in this process)
                cases.append({"kind": "request", "cmd": cmd, "data": bytes(fobj.request_bytes()), "exc": "", "mut": "factory"})
            if cmd["fr"] == "tcp":
                b2 = bytes(obj.request_bytes())   # a retransmission: new transaction id, same operation
                cases.append({"kind": "request", "cmd": cmd, "data": b2, "exc": ""})
        except Exception as ex:  # noqa
            cases.append({"kind": "request", "cmd": cmd, "data": None, "exc": type(ex).__name__})
    return cases


def inverter_requests(job) -> list[dict]:
    """What an inverter object constructed with an explicit communication address puts on the wire (read_device_info and
    read_runtime_data on a simulated inverter): every Modbus request must be the canonical frame for THAT address."""
    fam, port, comm = job
    from . import frames as F
    from .checks_decode import device_regs, es_info
    from .checks_inverter import serial_for
    from .inv_driver import run_program
    serial = serial_for({"ET": "ETU", "DT": "DTU"}.get(fam, "ESU")) if fam != "ES" else "95048ESU000W0000"
    sim = {"regs": device_regs(fam, serial, 10000)}
    if fam == "ES":
        sim["aa55"] = {"info": list(es_info(serial))}
    spec = {"family": fam, "port": port, "sim": sim, "retries": 0}
    if comm:
        spec["comm_addr"] = comm
    # reads, a single-register write and a multi-register write (the clock) through the public API
    tr = run_program({"inv": [spec], "calls": [{"api": "read_device_info"}, {"api": "read_runtime_data"},
                                                {"api": "read_setting", "args": ["grid_export_limit"]},
                                                {"api": "write_setting", "args": ["grid_export_limit", 1234]},
                                                {"api": "write_setting", "args": ["time", {"dt": [2024, 2, 29, 23, 59, 58]}]}]})
    want = comm if comm else (0x7F if fam == "DT" else 0xF7)
    fr = "tcp" if port == 502 else "rtu"
    out = []
    for ev in tr["ev"]:
        if ev["e"] != "SEND":
            continue
        b = bytes(ev["data"])
        if b[:4] == b"\xaa\x55\xc0\x7f":
            continue
        p = F.parse_request(fr, b)
        if p is None:
            out.append({"kind": "request", "cmd": C(fr, "read", want, 0, 1), "data": b, "exc": "", "mut": f"inverter:{fam}:{comm:#x}"})
            continue
        op = {3: "read", 6: "write", 16: "wmulti"}.get(p["fn"], "read")
        cmd = C(fr, op, want, p["reg"], p["n"], payload=bytes(p.get("payload", b"")))
        out.append({"kind": "request", "cmd": cmd, "data": b, "exc": "", "mut": f"inverter:{fam}:{comm:#x}"})
    return out


def inverter_concurrent(job) -> list[dict]:
    """Several tasks poll ONE inverter object over Modbus/TCP at the same time (the same command objects are in flight
    more than once): the transaction ids on the wire, in the order of transmission."""
    fam, ka, ntasks, ncalls = job
    from .checks_decode import device_regs
    from .checks_inverter import serial_for
    from .inv_driver import run_program
    sim = {"regs": device_regs(fam, serial_for({"ET": "ETU", "DT": "DTU"}[fam]), 10000)}
    spec = {"family": fam, "port": 502, "sim": sim, "retries": 1, "keep_alive": ka}
    calls = [{"api": "read_runtime_data"}, {"api": "read_setting", "args": ["grid_export_limit"]}, {"api": "read_runtime_data"}]
    tr = run_program({"inv": [spec], "calls": [], "tasks": [[dict(calls[(i + k) % 3]) for k in range(ncalls)] for i in range(ntasks)],
                      "delay": 2})
    ids = [int.from_bytes(bytes(ev["data"])[0:2], "big") for ev in tr["ev"] if ev["e"] == "SEND" and len(ev["data"]) >= 8]
    return [{"kind": "txhist", "ids": ids, "mut": f"concurrent:{fam}:{'ka' if ka else 'nka'}:{ntasks}x{ncalls}"}] if ids else []


def gen_txhist(tier: str) -> list[dict]:
    P, _, _ = _lib()
    objs = [P.ModbusTcpReadCommand(0xF7, 35100, 2), P.ModbusTcpWriteCommand(0xF7, 47000, 1),
            P.ModbusTcpWriteMultiCommand(0xF7, 47547, bytes(12)), P.ModbusTcpReadCommand(0x7F, 30100, 10)]
    ids = []
    n = 70000 if tier == "quick" else 140000
    for k in range(n):
        b = objs[(k * k + k // 7) % len(objs)].request_bytes()
        ids.append(int.from_bytes(b[0:2], "big"))
    return [{"kind": "txhist", "ids": ids}]


# ------------------------------------------------------------------------------------------------
# judging
# ------------------------------------------------------------------------------------------------
CASE_DEFAULT = {"kind": "", "cmd": {"fr": "rtu", "op": "read", "addr": 0, "reg": 0, "n": 0, "rt": -1, "payload": []},
                "f": 0, "pf": 0, "out": "", "len": 0, "exp": 0, "msg": "", "exc": "", "ids": []}


def judge_cases(run: Run, cases: list[dict], batch_size: int = 6000, par: int = 4) -> list[list[str]]:
    import concurrent.futures as cf
    os.makedirs(run.workdir, exist_ok=True)
    batches = []
    for b0 in range(0, len(cases), batch_size):
        frames: list[list[int]] = []
        idx: dict[bytes, int] = {}

        def fid(b):
            if b is None:
                return 0
            b = bytes(b)
            if b not in idx:
                frames.append(list(b))
                idx[b] = len(frames)
            return idx[b]
        js = []
        for c in cases[b0:b0 + batch_size]:
            d = dict(CASE_DEFAULT)
            d["kind"] = c["kind"]
            if c["kind"] != "txhist":
                d["cmd"] = c["cmd"]
                d["f"] = fid(c.get("data"))
                d["pf"] = fid(c.get("pl")) if c.get("pl") is not None and c["cmd"]["op"] in ("read", "raw") else 0
                for k in ("out", "len", "exp", "msg", "exc"):
                    if k in c:
                        d[k] = c[k]
            else:
                d["ids"] = c["ids"]
            js.append(d)
        frames.append([])  # id of the empty string, so that frame 0 is never dereferenced
        path = os.path.join(run.workdir, f"wire_{b0 // batch_size:04d}.json")
        tlc.write_json(path, {"frames": frames, "cases": js})
        batches.append((path, len(js)))

    def one(args):
        path, n = args
        r = tlc.run_tlc("TraceWire", env={"VERIF_BATCH": path}, workers=max(2, 16 // par), timeout=3600, heap="6g")
        if not r["ok"]:
            raise engine.MachineryError("TLC failed on " + path + "\n" + r["stdout"][-3000:] + r["stderr"][-1500:])
        v = tlc.parse_verdicts(r["stdout"])
        if len(v) != n:
            raise engine.MachineryError(f"{len(v)} verdicts for {n} cases in {path}")
        return [[c for c, _ in v[k + 1]] for k in range(n)], r.get("distinct", 0), r.get("generated", 0)

    verdicts = []
    with cf.ThreadPoolExecutor(max_workers=par) as ex:
        for vs, st, tr in ex.map(one, batches):
            verdicts.extend(vs)
            run.cov["states"] += st
            run.cov["transitions"] += tr
    for path, _ in batches:
        os.remove(path)
    return verdicts


def check(prop: str, tier: str, seed: int) -> int:
    run = Run(prop, tier, seed, "model_checking" if prop == "C03" else "exploration")
    rnd = random.Random(seed)
    run.assumptions = ["the oracle is spec/Wire.tla evaluated by TLC; MC_Wire checks the oracle against published vectors and its own builders",
                       "frames built by the harness are untrusted inputs: their class (accept / partial / rejected / non-accept) is decided inside TLC",
                       "TLC, SANY and the CommunityModules are trusted"]
    r = tlc.run_tlc("MC_Wire", workers=8, timeout=1200)
    run.add_mc("MC_Wire", r)
    if not r.get("ok"):
        raise engine.MachineryError("MC_Wire failed: the oracle is inconsistent with itself\n" + r["stdout"][-2000:])
    if prop in ("C01", "C02"):
        cases = gen_validate_cases(tier, rnd)
        own = ("C01.",) if prop == "C01" else ("C02.",)
        run.cov["rule"] = ("seed commands x valid answers (payload shapes) x {every truncation, every single-bit flip, extensions, "
                           "function/field substitutions with and without repaired CRC, random multi-byte mutations}, plus random garbage "
                           "of length 0..300 and random valid frames over the whole argument space; each fed to the real validator; "
                           "non-trivial = the frame differs from every other case and is not the plain seed answer; distinct = distinct (command, bytes)")
    else:
        cases = gen_request_cases(tier, rnd) + gen_txhist(tier)
        jobs = [(fam, port, comm) for fam, port in (("ET", 8899), ("ET", 502), ("DT", 8899), ("DT", 502))
                for comm in ((0, 1, 0x11, 0x7F, 0x80, 0xF6, 0xF7, 0xF8, 0xFE, 0xFF) if tier == "quick" else range(256))]
        for lst in engine.parallel_map("harness.checks_wire", "inverter_requests", jobs, procs=16, chunk=2):
            cases += lst
        cjobs = [(fam, ka, nt, nc) for fam in ("ET", "DT") for ka in (True, False) for nt in (2, 3, 4) for nc in (1, 2, 3)]
        for lst in engine.parallel_map("harness.checks_wire", "inverter_concurrent", cjobs, procs=16, chunk=2):
            cases += lst
        own = ("C03.",)
        run.cov["rule"] = ("argument grid: all comm addresses 0..255, all counts 1..125, all even payload lengths 2..246, boundary and "
                           "random registers/values (negative included), AA55 read/write/write-multi(8 bytes); every command built through "
                           "the public constructors, bytes compared with Wire!RequestOf and decoded by the independent Wire!ParseRequest; "
                           "transaction ids of >= 70000 consecutive Modbus/TCP transmissions over interleaved command objects; distinct = distinct (command, bytes)")
    verdicts = judge_cases(run, cases)
    distinct = set()
    musts: dict[str, int] = {}
    for c, v in zip(cases, verdicts):
        run.cov["evaluations"] += 1
        if c["kind"] != "txhist":
            key = (str(c["cmd"]), c.get("data"))
            if c.get("mut") != "valid" or prop == "C02":
                distinct.add(key)
        else:
            distinct.add(("tx", len(c["ids"])))
            distinct.add(("txwrap", max(c["ids"]) > 65000))
        for clause in v:
            if clause.startswith("INFO."):
                musts[clause] = musts.get(clause, 0) + 1
                continue
            if clause.startswith("OBS."):
                run.observe(clause)
                continue
            if not clause.startswith(own):
                continue
            cmd = c.get("cmd", {})
            detail = {"fr": cmd.get("fr"), "op": cmd.get("op"), "mut": c.get("mut", c["kind"]), "out": c.get("out", ""),
                      "exc": c.get("exc", "")}
            rp = {"case": {k: (list(vv) if isinstance(vv, (bytes, bytearray)) else vv) for k, vv in c.items() if k != "ids"}}
            run.violation(clause, detail, rp)
    run.cov["distinct_nontrivial"] = len(distinct)
    run.cov["must_classes"] = musts
    run.cov["traces_validated_against_impl"] = len(cases)
    if prop in ("C01", "C02", "C03"):
        from . import checks_proto
        checks_proto.wire_level(run, prop, tier, rnd)
    k = len(cases) // 3
    run.cov["samples"] = [{kk: (vv.hex() if isinstance(vv, (bytes, bytearray)) else vv) for kk, vv in cases[j].items() if kk != "ids"}
                          for j in (0, k, 2 * k)]
    return run.finish()


def replay_case(prop: str, obj: dict) -> int:
    c = obj["replay"]["case"]
    cmd = c["cmd"]
    run = Run(prop, "replay", 0, "exploration")
    if c["kind"] == "validate":
        data = bytes(c["data"])
        o = outcome(make(cmd), data)
        case = {"kind": "validate", "cmd": cmd, "data": data, "mut": c.get("mut", ""), **o}
    else:
        try:
            case = {"kind": "request", "cmd": cmd, "data": bytes(make(cmd).request_bytes()), "exc": ""}
        except Exception as ex:  # noqa
            case = {"kind": "request", "cmd": cmd, "data": None, "exc": type(ex).__name__}
    v = judge_cases(run, [case])[0]
    bad = [x for x in v if x.startswith(prop + ".")]
    for x in bad:
        print(f"VIOLATION property={prop} replay=- clause={x}")
    return 1 if bad else 0
