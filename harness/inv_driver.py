"""Drive the public Inverter API (ET / DT / ES, goodwe.connect / discover / search_inverters) against simulated
inverters on the virtual-time loop and record an API-level trace:

  CALL(api, args)   REQ(bytes)   RESP(bytes)   RET(value projection | exception)

A program is a dict:
  {"inv": [ {"family": "ET", "port": 8899, "comm_addr": 0, "timeout": 1, "retries": 3,
             "sim": {"regs": {addr: word}, "refused": [[lo, hi]], "silent": [[lo, hi]], "aa55": {...}, "default": 0},
             "keep_alive": false}, ...],
   "calls": [ {"o": 0, "api": "read_runtime_data"}, {"o": 0, "api": "read_sensor", "args": ["vpv1"]},
              {"o": 0, "sim": {"set": {addr: word}, "refuse": [[lo,hi]], "unrefuse": true}}, ... ]}
"""
from __future__ import annotations

import asyncio
import datetime
import logging
import os
import sys

sys.path.insert(0, os.environ.get("VERIF_REPO", "/repo"))

from .siminverter import SimInverter  # noqa: E402
from .vloop import TICK, VLoop, run  # noqa: E402

logging.getLogger("goodwe").setLevel(logging.CRITICAL)
logging.getLogger("asyncio").setLevel(logging.CRITICAL)

U16 = 65536


def limbs(n: int, k: int = 0) -> list[int]:
    """Big-endian 16-bit limbs of a non-negative integer (TLC integers are 32 bit)."""
    out = []
    while n:
        out.append(n & 0xFFFF)
        n >>= 16
    out.reverse()
    while len(out) < max(k, 1):
        out.insert(0, 0)
    return out


def proj(v, den: int | None = None) -> dict:
    """Projection of a returned Python value to a JSON shape the specifications can read."""
    if v is None:
        return {"k": "none"}
    if isinstance(v, bool):
        return {"k": "bool", "b": v}
    if isinstance(v, int):
        return {"k": "int", "neg": v < 0, "l": limbs(abs(v))}
    if isinstance(v, float):
        if v != v:
            return {"k": "nan"}
        if v in (float("inf"), float("-inf")):
            return {"k": "inf", "neg": v < 0}
        for d in ([den] if den else []) + [1, 10, 100, 1000]:
            n = round(v * d)
            if abs(v * d - n) < 1e-6 * max(1.0, abs(v * d) * 1e-9 + 1):
                return {"k": "rat", "neg": n < 0, "l": limbs(abs(n)), "den": d}
        return {"k": "inexact", "repr": repr(v)}
    if isinstance(v, str):
        return {"k": "str", "s": v}
    if isinstance(v, (bytes, bytearray)):
        return {"k": "bytes", "b": list(v)}
    if isinstance(v, datetime.datetime):
        return {"k": "dt", "v": [v.year, v.month, v.day, v.hour, v.minute, v.second]}
    if hasattr(v, "start_h") and hasattr(v, "day_bits"):
        d = {"k": "eco", "cls": type(v).__name__, "id": getattr(v, "id_", "")}
        for f in ("start_h", "start_m", "end_h", "end_m", "power", "on_off", "day_bits", "soc", "month_bits"):
            x = getattr(v, f, None)
            d[f] = x if isinstance(x, int) else -99999
        d["days"] = getattr(v, "days", None) or ""
        d["months"] = getattr(v, "months", None) or ""
        st = getattr(v, "schedule_type", None)
        d["stype"] = int(st) if st is not None else -1
        return d
    if isinstance(v, dict):
        return {"k": "dict", "d": {kk: proj(vv) for kk, vv in v.items()}}
    if isinstance(v, (tuple, list)):
        return {"k": "list", "v": [proj(x) for x in v]}
    if hasattr(v, "value") and hasattr(v, "name"):
        return {"k": "enum", "name": v.name, "v": int(v.value)}
    return {"k": "obj", "cls": type(v).__name__}


def exc_info(ex: BaseException) -> dict:
    from goodwe.exceptions import InverterError, RequestFailedException, RequestRejectedException
    return {"exc": type(ex).__name__, "fam": isinstance(ex, InverterError),
            "failed": isinstance(ex, RequestFailedException), "rejected": isinstance(ex, RequestRejectedException),
            "msg": str(getattr(ex, "message", "")) if isinstance(ex, InverterError) else str(ex)[:80],
            "cfc": getattr(ex, "consecutive_failures_count", -1)}


_EXEC_PATCHED = False


def _patch_execute():
    """Observe ProtocolCommand.execute (a public coroutine) at its call / return boundary: XCALL / XRET events."""
    global _EXEC_PATCHED
    if _EXEC_PATCHED:
        return
    from goodwe.protocol import ProtocolCommand
    orig = ProtocolCommand.execute

    async def execute(self, protocol):
        loop = asyncio.get_event_loop()
        rec = getattr(loop, "rec", None)
        if rec:
            rec("XCALL")
        try:
            return await orig(self, protocol)
        finally:
            if rec:
                rec("XRET")

    ProtocolCommand.execute = execute
    _EXEC_PATCHED = True


_RESP_PATCHED = False


def _patch_response():
    """Observe ProtocolResponse.read (the one place where decoders take bytes out of an accepted answer): a SHORT event
    whenever fewer bytes are there than the decoder asked for (pos = byte offset in the payload, first = first register
    of the request when the command knows it).  Pure observation; a library without this method yields no events."""
    global _RESP_PATCHED
    if _RESP_PATCHED:
        return
    _RESP_PATCHED = True
    try:
        from goodwe.protocol import ProtocolResponse
        orig = ProtocolResponse.read
    except (ImportError, AttributeError):
        return

    def read(self, size=-1):
        # where the read starts: the position of the object's byte stream, whatever the attribute is called; a read whose
        # position cannot be told is not reported at all (no observation, never a guess)
        pos = -1
        try:
            import io
            for v in vars(self).values():
                if isinstance(v, io.BytesIO):
                    pos = v.tell()
                    break
        except Exception:  # noqa
            pos = -1
        got = orig(self, size)
        try:
            if pos >= 0 and isinstance(size, int) and size > 0 and len(got) < size:
                rec = getattr(asyncio.get_event_loop(), "rec", None)
                first = getattr(getattr(self, "command", None), "first_address", None)
                if rec:
                    rec("SHORT", pos=pos, want=size, got=len(got), first=first if isinstance(first, int) else -1)
        except Exception:  # noqa
            pass
        return got

    ProtocolResponse.read = read


class World:
    """One virtual loop, several simulated inverters addressed by host name."""

    def __init__(self, prog: dict, strict: bool = True):
        self.prog = prog
        _patch_execute()
        _patch_response()
        self.loop = VLoop(strict=strict, horizon=prog.get("horizon", 400000))
        asyncio.set_event_loop(self.loop)
        self.events = self.loop.events
        self.sims: list[SimInverter] = []
        self.invs: list = []
        self.tr2sim: dict[int, int] = {}
        self.loop.peer = self._peer
        self.delay = prog.get("delay", 1)
        self._pending_host = None
        orig_dgram = self.loop.create_datagram_endpoint
        orig_conn = self.loop.create_connection
        world = self

        async def dgram(factory, local_addr=None, remote_addr=None, **kw):
            tr, pr = await orig_dgram(factory, local_addr=local_addr, remote_addr=remote_addr, **kw)
            world.tr2sim[tr.id] = world._host_index(remote_addr[0] if remote_addr else None)
            return tr, pr

        async def conn(factory, host=None, port=None, **kw):
            tr, pr = await orig_conn(factory, host=host, port=port, **kw)
            world.tr2sim[tr.id] = world._host_index(host)
            return tr, pr

        self.loop.create_datagram_endpoint = dgram
        self.loop.create_connection = conn

    def _host_index(self, host):
        if host and host.startswith("inv"):
            try:
                return int(host[3:])
            except ValueError:
                pass
        return 0

    def add_sim(self, spec: dict, fr: str) -> SimInverter:
        s = spec or {}
        sim = SimInverter(fr, {int(k): v for k, v in (s.get("regs") or {}).items()}, s.get("refused"), s.get("silent"),
                          {k: (bytes(v) if isinstance(v, (list, bytes)) else v) for k, v in (s.get("aa55") or {}).items()},
                          s.get("default", 0))
        sim.oserr = [tuple(x) for x in (s.get("oserr") or [])]
        if s.get("exc_code") is not None:
            sim.exc_code = int(s["exc_code"])      # the exception code refused requests are answered with (default 2)
        self.sims.append(sim)
        return sim

    def _peer(self, tr, data: bytes):
        i = self.tr2sim.get(tr.id, 0)
        # the transport id is known only after create_* returns; the first send happens later, so the map is filled
        sim = self.sims[i] if i < len(self.sims) else None
        if sim is None:
            return
        if getattr(sim, "oserr", None):
            # address ranges for which the NETWORK fails (not the inverter): ICMP port unreachable on UDP, reset on TCP
            from . import frames as F
            p = F.parse_request(sim.fr, data) or {}
            reg = p.get("reg")
            if reg is not None and any(lo <= reg <= hi for lo, hi in sim.oserr):
                if tr.kind == "udp":
                    tr.send_error(ConnectionRefusedError(111, "Connection refused"), self.delay)
                else:
                    tr.peer_close(self.delay, ConnectionResetError(104, "Connection reset by peer"))
                return
        resp = sim.handle(data)
        mb = self.prog.get("mbap")
        if resp is not None and mb and tr.kind == "tcp" and len(resp) > 9 and resp[7] == 3 and resp[:4] != b"\xaa\x55\x7f\xc0":
            # a gateway on the path that does not keep the MBAP length field right (the library's validator is documented
            # to ignore that field): byte count only / the fixed 6 of a write echo / zero / all ones
            ln = {"bytecount": resp[8], "six": 6, "zero": 0, "max": 0xFFFF}[mb]
            resp = resp[:4] + ln.to_bytes(2, "big") + resp[6:]
        if resp is not None:
            tr.deliver(resp, self.delay, "sim")


def make_inverter(world: World, idx: int, spec: dict):
    import goodwe
    fam = spec["family"]
    cls = {"ET": goodwe.ET, "DT": goodwe.DT, "ES": goodwe.ES}[fam]
    port = spec.get("port", 8899)
    inv = cls(spec.get("host", f"inv{idx}"), port, spec.get("comm_addr", 0), spec.get("timeout", 1), spec.get("retries", 3))
    if spec.get("keep_alive") is not None:
        inv.set_keep_alive(spec["keep_alive"])
    return inv


def _arg(a):
    if isinstance(a, dict) and "bytes" in a:
        return bytes(a["bytes"])
    if isinstance(a, dict) and "opmode" in a:
        from goodwe.inverter import OperationMode
        return OperationMode(a["opmode"])
    if isinstance(a, dict) and "dt" in a:
        return datetime.datetime(*a["dt"])
    if isinstance(a, dict) and "frac" in a:
        return a["frac"][0] / a["frac"][1]
    return a


def run_program(prog: dict) -> dict:
    world = World(prog, strict=prog.get("strict", True))
    loop = world.loop
    for i, spec in enumerate(prog["inv"]):
        fr = "tcp" if spec.get("port", 8899) == 502 else "rtu"
        world.add_sim(spec.get("sim"), fr)
        world.invs.append(make_inverter(world, i, spec) if spec.get("family") else None)

    async def one_call(ci: int, call: dict):
        if "sim" in call:
            sim = world.sims[call.get("o", 0)]
            for k, v in (call["sim"].get("set") or {}).items():
                sim.poke(int(k), v)
            if "refused" in call["sim"] or "silent" in call["sim"]:
                sim.reconfigure(call["sim"].get("refused"), call["sim"].get("silent"))
            if "aa55" in call["sim"]:
                sim.set_blocks(call["sim"]["aa55"])
            loop.rec("SIM", ci=ci, o=call.get("o", 0))
            return
        o = call.get("o", 0)
        api = call["api"]
        args = [_arg(a) for a in call.get("args", [])]
        loop.rec("CALL", ci=ci, o=o, api=api, args=call.get("args", []))
        try:
            if api.startswith("goodwe."):
                import goodwe
                fn = getattr(goodwe, api[7:])
                res = await fn(*args, **call.get("kw", {}))
                if hasattr(res, "read_runtime_data"):
                    world.invs.append(res)
                    res = {"family": type(res).__name__, "model": res.model_name, "serial": res.serial_number}
            elif api in ("sensors", "settings"):
                res = [s.id_ for s in getattr(world.invs[o], api)()]
            elif api in ("table:sensors", "table:settings"):
                from .tables import listing
                tab = listing(getattr(world.invs[o], api[6:])())
                loop.rec("RET", ci=ci, o=o, api=api, ok=True, val={"k": "table"}, table=tab)
                return
            elif api == "sim:read":
                # the harness looks into the simulated inverter directly (no library code involved)
                loop.rec("RET", ci=ci, o=o, api=api, ok=True, val={"k": "raw", "b": list(world.sims[o].read_bytes(args[0], args[1]))})
                return
            elif api == "attr":
                res = getattr(world.invs[o], args[0])
            else:
                res = await getattr(world.invs[o], api)(*args)
            snap = proj(res)
            ev = loop.rec("RET", ci=ci, o=o, api=api, ok=True, val=snap)
            ev["_obj"] = res
        except asyncio.CancelledError:
            loop.rec("RET", ci=ci, o=o, api=api, ok=False, exc="CancelledError", fam=False, failed=False, rejected=False,
                     msg="", cfc=-1)
        except Exception as ex:  # noqa
            loop.rec("RET", ci=ci, o=o, api=api, ok=False, **exc_info(ex))

    async def main():
        if prog.get("tasks"):
            # several call sequences as cooperating tasks; switch points are the awaits inside the library
            async def seq(calls, base):
                for k, c in enumerate(calls):
                    await one_call(base + k, c)
            await asyncio.gather(*[seq(calls, 1000 * (i + 1)) for i, calls in enumerate(prog["tasks"])])
        else:
            for ci, call in enumerate(prog["calls"]):
                await one_call(ci, call)
        await asyncio.sleep(prog.get("settle", 2))

    st, _ = run(loop, main())
    # snapshots at the end of the run of every object handed to the caller (C20: values do not change afterwards)
    for ev in loop.events:
        if ev["e"] == "RET" and "_obj" in ev:
            ev["val_end"] = proj(ev.pop("_obj"))
    try:
        loop.close()
    except Exception:  # noqa
        pass
    return {"status": st, "ev": loop.events, "prog": prog, "tr2sim": dict(world.tr2sim),
            "simlog": [[(rq, rs) for rq, rs in s.log] for s in world.sims],
            "oplog": [s.export_log() for s in world.sims]}
