"""Validation of the simulated inverter against spec/Registers.tla (through spec/TraceRegisters.tla).

Every check that lets the library talk to harness/siminverter.py hands the simulator logs of its runs to
validate_logs(): the configuration at creation, every request / response pair served and every change the harness made
behind the library's back are replayed through the actions of Registers.tla by TLC.  A difference means that the
environment the property was judged in is not the one the specification describes: the check stops with a machinery
failure (exit 2), it never turns into a verdict about the library."""
from __future__ import annotations

import os
import random

from . import engine, tlc
from .engine import Run

MAX_OPS = 3000      # longer logs are cut (a prefix of a valid log is a valid log)


def _encode(logs: list[dict]) -> dict:
    frames: list[list[int]] = []
    idx: dict[bytes, int] = {}

    def fid(b) -> int:
        if b is None:
            return 0
        b = bytes(b)
        if b not in idx:
            frames.append(list(b))
            idx[b] = len(frames)
        return idx[b]

    out = []
    for lg in logs:
        aa = lg.get("aa55") or {}
        ops = []
        for op in lg["ops"][:MAX_OPS]:
            if op[0] == "req":
                ops.append({"k": "req", "rq": fid(op[1]), "rs": fid(op[2])})
            elif op[0] == "poke":
                ops.append({"k": "poke", "a": op[1], "v": op[2]})
            elif op[0] == "cfg":
                ops.append({"k": "cfg", "refused": op[1], "silent": op[2]})
            elif op[0] == "aa55":
                ops.append({"k": "aa55", "info": fid(op[1]["info"]) if "info" in op[1] else 0,
                            "runtime": fid(op[1]["runtime"]) if "runtime" in op[1] else 0})
        out.append({"fr": lg["fr"], "default": lg["default"], "init": [list(x) for x in lg["init"]],
                    "refused": lg["refused"], "silent": lg["silent"],
                    "aa55": {"info": fid(bytes(aa.get("info", bytes(64)))), "runtime": fid(bytes(aa.get("runtime", bytes(149)))),
                             "slen": int(aa.get("settings_len", 86)), "mute": bool(aa.get("mute", False)),
                             "once": bool(aa.get("info_once", False))},
                    "ops": ops})
    return {"frames": frames + [[]], "logs": out}


def validate_logs(run: Run, logs: list[dict], sample: int | None = None, seed: int = 0, batch_ops: int = 60000) -> int:
    """Validate simulator logs (all, or a random sample of `sample` logs); raises MachineryError on a mismatch."""
    logs = [lg for lg in logs if lg and lg.get("ops")]
    if sample is not None and len(logs) > sample:
        logs = random.Random(seed).sample(logs, sample)
    batches, cur, n = [], [], 0
    for lg in logs:
        cur.append(lg)
        n += min(len(lg["ops"]), MAX_OPS)
        if n >= batch_ops:
            batches.append(cur)
            cur, n = [], 0
    if cur:
        batches.append(cur)
    total_ops = 0
    for bi, b in enumerate(batches):
        path = os.path.join(run.workdir, f"simlogs_{bi}.json")
        tlc.write_json(path, _encode(b))
        r = tlc.run_tlc("TraceRegisters", env={"VERIF_BATCH": path}, workers=16, timeout=3000)
        if not r["ok"]:
            raise engine.MachineryError("TraceRegisters failed\n" + r["stdout"][-3000:] + r["stderr"][-500:])
        v = tlc.parse_verdicts(r["stdout"])
        if len(v) != len(b):
            raise engine.MachineryError(f"TraceRegisters: {len(v)} verdicts for {len(b)} simulator logs")
        for k, lg in enumerate(b):
            if v[k + 1]:
                clause, at = v[k + 1][0]
                op = lg["ops"][at - 1] if 0 < at <= len(lg["ops"]) else None
                raise engine.MachineryError(
                    f"HARNESS-MISMATCH: the simulated inverter deviates from Registers.tla ({clause} at operation {at}: "
                    f"{[x.hex() if isinstance(x, (bytes, bytearray)) else x for x in op] if op else '?'}); log kept in {path}")
        run.cov["states"] += r.get("distinct", 0)
        run.cov["transitions"] += r.get("generated", 0)
        total_ops += sum(min(len(lg["ops"]), MAX_OPS) for lg in b)
        os.remove(path)
    run.cov["simulator_logs_validated"] = run.cov.get("simulator_logs_validated", 0) + len(logs)
    run.cov["simulator_operations_validated"] = run.cov.get("simulator_operations_validated", 0) + total_ops
    return len(logs)


def model_check(run: Run, tier: str) -> None:
    """Registers.tla itself: content = latest assignment, reads report the content, writes touch only their own registers,
    what is written reads back (small instance, exhaustive)."""
    engine.run_mc(run, "MC_Registers", ["MC_Registers_small" if tier == "quick" else "MC_Registers"], timeout=3000)
