"""Checks of the transport-layer properties C04..C10 (and the end-to-end clauses of C01 C02 C03 C07 C08).

Every check = exhaustive TLC runs of design-model instances (MC_Proto_*.cfg) + scenario families
executed on the real code, recorded, and judged by TraceProtocol.tla (ProtoMonitor clauses).
A check fails only on clauses of its own property.
"""
from __future__ import annotations

import errno
import itertools
import json
import os
import random

import re

from . import engine, tlc
from .engine import Run

T = 4  # ticks per timeout in the scenario families (same constant as the model instances)


# ------------------------------------------------------------------------------------------------
# alphabet: exported from the specification
# ------------------------------------------------------------------------------------------------
_alpha = None


def alphabet() -> dict:
    global _alpha
    if _alpha is None:
        path = os.path.join(tlc.OUT, f"alphabet_{os.getpid()}.json")
        r = tlc.run_tlc("ExportProto", env={"VERIF_OUT": path}, workers=1, timeout=300)
        if not r["ok"]:
            raise engine.MachineryError("ExportProto failed\n" + r["stdout"][-2000:])
        with open(path) as f:
            _alpha = json.load(f)
        os.remove(path)
        if _alpha["T"] != T:
            raise engine.MachineryError("tick constant of the model changed")
    return _alpha


def concrete(mf: dict, fr: str, scale: int = 1) -> list[dict]:
    """Concrete refinements of one abstract fault of the model."""
    k, d, d2, x = mf["k"], mf["d"] * scale, mf["d2"] * scale, mf["x"]
    split = {"rtu": 6, "tcp": 10, "aa55": 10}[fr]
    if k == "drop":
        return [{"k": "drop"}]
    if k == "ans":
        return [{"k": "ans", "d": d}]
    if k == "garb":
        return [{"k": "garbage", "d": d}, {"k": "short", "d": d}, {"k": "badcrc", "d": d}]
    if k in ("dupg", "dup", "ansg", "gans"):
        return [{"k": k, "d": d}]
    if k in ("dupx", "ansx"):
        return [{"k": k, "code": x, "d": d}]
    if k == "exc":
        return [{"k": "exc", "code": x, "d": d}]
    if k == "lone":
        return [{"k": "lone", "split": split, "d": d}]
    if k == "frag":
        second = {"tail": "exact", "tailx": "plus1", "tailc": "corrupt"}[x]
        return [{"k": "frag", "split": split, "d": d, "d2": d2, "second": second}]
    if k == "pclose":
        return [{"k": "pclose", "d": d}]
    if k == "eof":
        # the peer closes in an orderly way (FIN: eof_received first); datagram sockets have no such event
        return [{"k": "eof" if fr == "tcp" else "pclose", "d": d}]
    if k == "err":
        return [{"k": "err", "d": d, "err": x}]
    if k == "serr":
        # the send itself fails: reported inside sendto() on datagram sockets, as a later connection error on streams
        return [{"k": "serr", "err": x}] if fr != "tcp" else [{"k": "err", "d": d, "err": x}]
    raise ValueError(k)


def req(reg: int, op: str = "read", n: int = 2, **kw) -> dict:
    d = {"do": "req", "op": op, "reg": reg}
    if op == "read":
        d["n"] = n
    d.update(kw)
    return d


FRAMING = {"udp": "rtu", "tcp": "tcp"}


def base(kind: str, ka: bool, retries: int, fr: str | None = None, t: int = T) -> dict:
    return {"kind": kind, "fr": fr or FRAMING[kind], "ka": ka, "retries": retries, "T": t}


# ------------------------------------------------------------------------------------------------
# scenario families
# ------------------------------------------------------------------------------------------------
OPS3 = [{"do": "req", "op": "read", "n": 2}, {"do": "req", "op": "write", "v": -2},
        {"do": "req", "op": "wmulti", "payload": "0011223344556677"}]


def fam_script(retries_list, gaps, faults_key="full", conn_variants=True, kinds=("udp", "tcp"),
               scale: int = 1, limit: int | None = None, rnd: random.Random | None = None) -> list[dict]:
    """One caller, three requests: the first under every fault script of depth retries+1, the second
    unanswered (silent request after a history), the third answered promptly (next request works)."""
    out = []
    al = alphabet()[faults_key]
    nvar = 0
    for kind in kinds:
        fr = FRAMING[kind]
        conns = [[]]
        if conn_variants:
            conns = [[], ["unreach"]] if kind == "udp" else [[], ["refused"], ["hang"], ["ok", "refused"]]
        for ka in (True, False):
            for r in retries_list:
                scripts = list(itertools.product(al, repeat=r + 1))
                if limit is not None and len(scripts) > limit:
                    scripts = rnd.sample(scripts, limit)
                for script in scripts:
                    # every abstract fault is refined to one of its concrete variants (garbage / short / bad checksum rotate)
                    variants = [concrete(mf, fr, scale) for mf in script]
                    nv = max(len(v) for v in variants)
                    for vi in range(nv):
                        conc = [v[(vi + nvar) % len(v)] for v in variants]
                        for g in gaps:
                            for cn in conns:
                                sc = base(kind, ka, r, t=T * scale)
                                # the kind of command rotates (read / single write / multi-register write): the budget of
                                # a request does not depend on what it asks for
                                # (only under scripts that deliver no answer and no piece of one: the model's abstract "answer" /
                                # "head" fit any pending request, on the wire a read answer fits no write)
                                plain = all(mf["k"] in ("drop", "garb", "dupg", "exc", "dupx", "pclose", "eof", "err", "serr") for mf in script)
                                k1 = OPS3[nvar % 3] if plain else OPS3[0]
                                # the silent request is of the same kind
                                k2 = k1
                                sc["epochs"] = [[{"start": 0, "prog": [dict(k1, reg=100), {"do": "sleep", "d": g * scale},
                                                                        dict(k2, reg=101),
                                                                        {"do": "sleep", "d": g * scale}, req(102)]}]]
                                sc["rfaults"] = [list(conc), [], [{"k": "ans", "d": scale}]]
                                sc["connects"] = list(cn)
                                sc["family"] = "script"
                                if scale == 1:
                                    sc["abstract"] = {"rf": [list(script), [], [{"k": "ans", "d": 1, "d2": 0, "x": 0}]],
                                                      "conn": list(cn), "gap": g}
                                out.append(sc)
                    nvar += 1
    return out


def fam_frag(counts, tier: str, rnd: random.Random) -> list[dict]:
    """C07: every split point of a read answer x second piece x delay x framing x keep-alive."""
    out = []
    seconds = ["exact", "plus1", "minus1", "corrupt", "other", "othertail", "none"]
    # (delay of the head, delay of the second piece) after the transmission; (2, T + 1), (T - 1, 2 T - 2): the second piece
    # is later than one timeout after the transmission but within one timeout after the head
    delays = [(1, 1), (1, 2), (1, 1 + T - 1), (1, 1 + T), (1, 1 + T + 1), (T - 1, T), (2, T + 1), (T - 1, 2 * T - 2)]
    for kind, fr in (("udp", "rtu"), ("udp", "aa55"), ("tcp", "tcp")):
        for n in counts:
            flen = 2 * n + (7 if fr == "rtu" else 9)
            splits = list(range(1, flen))
            if tier == "quick" and flen > 40:
                splits = sorted(set(list(range(1, 13)) + list(range(flen - 6, flen)) + rnd.sample(splits, 6)))
            for split in splits:
                for second in seconds:
                    for (d, d2) in (delays if second == "exact" else delays[1:2]):
                        for ka in ((True, False) if second in ("exact", "corrupt") else (True,)):
                            sc = base(kind, ka, 1, fr)
                            sc["epochs"] = [[{"start": 0, "prog": [req(100, n=n), {"do": "sleep", "d": 0}, req(101, n=n)]}]]
                            f = {"k": "frag" if second != "none" else "lone", "split": split, "d": d, "d2": d2,
                                 "second": second}
                            sc["rfaults"] = [[f, {"k": "ans", "d": 1}], [{"k": "ans", "d": 1}]]
                            sc["family"] = "frag"
                            out.append(sc)
                # a head that stayed alone in the first attempt, and the retransmission answered in two pieces of which the
                # first is as long as what the earlier head lacked (and the neighbouring lengths)
                for s2 in (flen - split - 1, flen - split, flen - split + 1):
                    if 1 <= s2 < flen:
                        sc = base(kind, True, 1, fr)
                        sc["epochs"] = [[{"start": 0, "prog": [req(100, n=n), {"do": "sleep", "d": 0}, req(101, n=n)]}]]
                        sc["rfaults"] = [[{"k": "lone", "split": split, "d": 1},
                                          {"k": "frag", "split": s2, "d": 1, "d2": 2, "second": "exact"}], [{"k": "ans", "d": 1}]]
                        sc["family"] = "frag"
                        out.append(sc)
                # a stray first piece arrives while the protocol is idle (left over from a duplicate); the next request is
                # answered in two pieces, the second one later than one timeout after that stray piece
                if split in (splits[0], splits[len(splits) // 2], splits[-1]) or tier != "quick":
                    for g in (2, 3):
                        for (d, d2) in ((1, T), (1, T - 1), (2, T + 1)):
                            sc = base(kind, True, 1, fr)
                            sc["epochs"] = [[{"start": 0, "prog": [req(100, n=n), {"do": "sleep", "d": g}, req(101, n=n)]}]]
                            sc["rfaults"] = [[{"k": "anshead", "split": split, "d": 1, "d2": 2}],
                                             [{"k": "frag", "split": split, "d": d, "d2": d2, "second": "exact"}, {"k": "ans", "d": 1}]]
                            sc["family"] = "frag"
                            out.append(sc)
                # other configured timeouts (2 s, 3 s, 5 s): the exact remainder arrives any time before the re-armed timer,
                # also seconds after the head - an absolute age limit shorter than the configured timeout shows here only
                if split in (splits[0], splits[len(splits) // 2], splits[-1]) or (tier != "quick" and (flen <= 40 or split % 8 == 0)):
                    for t in (4 * T, 6 * T, 10 * T):
                        for (d, d2) in ((1, t - 1), (1, t), (t - 1, 2 * t - 2), (2, t + 1), (1, 2), (1, 1 + 2 * T + 1)):
                            for ka in (True, False):
                                sc = base(kind, ka, 1, fr, t=t)
                                sc["epochs"] = [[{"start": 0, "prog": [req(100, n=n), {"do": "sleep", "d": 0}, req(101, n=n)]}]]
                                sc["rfaults"] = [[{"k": "frag", "split": split, "d": d, "d2": d2, "second": "exact"}, {"k": "ans", "d": 1}],
                                                 [{"k": "ans", "d": 1}]]
                                sc["family"] = "frag"
                                out.append(sc)
                # the same exact splits with contents that look like a frame header wherever the answer is cut
                for pat in ("aa55", "55aa", "aa557fc0"):
                    sc = base(kind, True, 1, fr)
                    sc["epochs"] = [[{"start": 0, "prog": [req(100, n=n), {"do": "sleep", "d": 0}, req(101, n=n)]}]]
                    sc["rfaults"] = [[{"k": "frag", "split": split, "d": 1, "d2": 2, "second": "exact"}, {"k": "ans", "d": 1}],
                                     [{"k": "ans", "d": 1}]]
                    sc["payloads"] = {"100": pat}
                    sc["family"] = "frag"
                    out.append(sc)
    return out


def fam_exc(tier: str) -> list[dict]:
    """C08: all exception codes x command kinds x transports x keep-alive x position."""
    out = []
    ops = [req(100), req(100, "write", v=-2), req(100, "wmulti", payload="0011223344556677")]
    for kind in ("udp", "tcp"):
        for ka in (True, False):
            for op in ops:
                for code in range(256):
                    for pos in (0, 1, 2):
                        sc = base(kind, ka, 2)
                        sc["epochs"] = [[{"start": 0, "prog": [dict(op), {"do": "sleep", "d": 0}, req(101)]}]]
                        sc["rfaults"] = [[{"k": "drop"}] * pos + [{"k": "exc", "code": code, "d": 1}], [{"k": "ans", "d": 1}]]
                        sc["family"] = "exc"
                        out.append(sc)
    # the exception answers a retransmission after a history of incomplete answers: the head of a read answer cut at every
    # point (so also lacking exactly the length of an exception frame) arrived during an earlier attempt and nothing more
    for kind in ("udp", "tcp"):
        for ka in (True, False):
            for n in ((3, 8) if tier == "quick" else (1, 2, 3, 4, 8, 60, 125)):
                flen = 2 * n + (7 if kind == "udp" else 9)
                splits = range(1, flen) if flen <= 40 else sorted(set(list(range(1, 13)) + list(range(flen - 12, flen))))
                for split in splits:
                    for code in ((2, 0x0B) if tier == "quick" else (1, 2, 3, 4, 6, 0x0B, 0xFF)):
                        for pos in ((1,) if tier == "quick" else (1, 2)):
                            sc = base(kind, ka, 2)
                            sc["epochs"] = [[{"start": 0, "prog": [req(100, n=n), {"do": "sleep", "d": 0}, req(101)]}]]
                            sc["rfaults"] = [[{"k": "lone", "split": split, "d": 1}] + [{"k": "drop"}] * (pos - 1) +
                                             [{"k": "exc", "code": code, "d": 1}], [{"k": "ans", "d": 1}]]
                            sc["family"] = "exc"
                            out.append(sc)
    return out


def fam_concurrent(ncallers_list, nreq, offsets, tier: str, rnd: random.Random, limit: int) -> list[dict]:
    """C06: interleavings of concurrent callers under the peer assumption."""
    out = []
    amodel = alphabet()["assume"]
    for kind in ("udp", "tcp"):
        fr = FRAMING[kind]
        for ka in (True, False):
            for nc in ncallers_list:
                offs = [o for o in itertools.product(offsets, repeat=nc - 1)]
                total = nc * nreq
                # per-request fault scripts of depth 2 (retries = 1)
                per_req = list(itertools.product(amodel, repeat=2))
                combos = itertools.product(offs, itertools.product(per_req, repeat=total))
                combos = list(itertools.islice(combos, 200000))
                if len(combos) > limit:
                    combos = rnd.sample(combos, limit)
                for off, scripts in combos:
                    if list(off) != sorted(off):
                        continue            # callers are interchangeable: start offsets in ascending order
                    sc = base(kind, ka, 1)
                    callers = []
                    reg = 100
                    for c in range(nc):
                        prog = []
                        for k in range(nreq):
                            if k:
                                prog.append({"do": "sleep", "d": 0})
                            prog.append(req(reg))
                            reg += 1
                        callers.append({"start": 0 if c == 0 else off[c - 1], "prog": prog})
                    sc["epochs"] = [callers]
                    # register order = caller-major, the same order as `scripts`
                    sc["rfaults"] = [[concrete(mf, fr)[0] for mf in s] for s in scripts]
                    sc["abstract"] = {"rf": [list(s) for s in scripts], "conn": [], "gap": 0, "off": [0] + list(off),
                                      "shape": f"c{nc}x{nreq}"}
                    sc["assume"] = True
                    sc["family"] = "concurrent"
                    out.append(sc)
    return out


def fam_oserr(tier: str) -> list[dict]:
    """C09: OS-level errors at every position."""
    out = []
    errs = [errno.ECONNREFUSED, errno.ENETUNREACH, errno.EHOSTUNREACH, errno.ECONNRESET, errno.EPIPE]
    for kind in ("udp", "tcp"):
        for ka in (True, False):
            for r in (0, 1):
                for e in errs:
                    # before the answer, after the answer (request done), between two requests
                    variants = [
                        [[{"k": "err", "d": 1, "err": e}], [{"k": "ans", "d": 1}]],
                        [[{"k": "drop"}, {"k": "err", "d": 1, "err": e}], [{"k": "ans", "d": 1}]],
                        [[{"k": "anserr", "d": 1, "err": e}], [{"k": "ans", "d": 1}]],
                        [[{"k": "anserr", "d": 1, "d2": 3, "err": e}], [{"k": "ans", "d": 1}]],
                        [[{"k": "pclose", "d": 1, "err": e}], [{"k": "ans", "d": 1}]],
                        # the send itself fails: error_received() runs before sendto() returns (datagram sockets)
                        [[{"k": "serr", "d": 1, "err": e}], [{"k": "ans", "d": 1}]],
                        [[{"k": "drop"}, {"k": "serr", "d": 1, "err": e}], [{"k": "ans", "d": 1}]],
                        [[{"k": "ans", "d": 1}], [{"k": "serr", "d": 1, "err": e}, {"k": "serr", "d": 1, "err": e}]],
                    ]
                    for v in variants:
                        for g in (0, 4):
                            sc = base(kind, ka, r)
                            sc["epochs"] = [[{"start": 0, "prog": [req(100), {"do": "sleep", "d": g}, req(101)]}]]
                            sc["rfaults"] = v
                            sc["family"] = "oserr"
                            out.append(sc)
            # endpoint creation / connect failures
            conns = [["unreach"], ["netunreach"], ["refused"], ["ok", "unreach"]] if kind == "udp" else \
                [["refused"], ["unreach"], ["netunreach"], ["hang"], ["refused", "refused"], ["hang", "hang"],
                 ["ok", "refused"], ["refused", "unreach", "hang"]]
            for cn in conns:
                for r in (0, 1, 2):
                    sc = base(kind, ka, r)
                    sc["epochs"] = [[{"start": 0, "prog": [req(100), {"do": "sleep", "d": 0}, req(101)]}]]
                    sc["rfaults"] = [[{"k": "drop"}, {"k": "ans", "d": 1}], [{"k": "ans", "d": 1}]]
                    sc["connects"] = cn
                    sc["family"] = "oserr"
                    out.append(sc)
    return out


def fam_lifecycle(tier: str, rnd: random.Random, limit: int) -> list[dict]:
    """C10: histories of requests interleaved with close() calls and event-loop changes."""
    out = []
    al = [{"k": "ans", "d": 1}, {"k": "drop"}, {"k": "garbage", "d": 1}, {"k": "exc", "code": 2, "d": 1},
          {"k": "pclose", "d": 1}, {"k": "err", "d": 1, "err": errno.ENETUNREACH},
          {"k": "anseof", "d": 1, "d2": 2}, {"k": "ansclose", "d": 1, "d2": 2}, {"k": "eof", "d": 1},
          {"k": "serr", "d": 1, "err": errno.ENETUNREACH}]
    between = ["none", "close", "loop", "close+loop", "sleep", "loop+close"]
    nreq = 3 if tier == "quick" else 4
    for kind in ("udp", "tcp"):
        for ka in (True, False):
            combos = list(itertools.product(itertools.product(al, repeat=nreq), itertools.product(between, repeat=nreq - 1)))
            if len(combos) > limit:
                combos = rnd.sample(combos, limit)
            for faults, betw in combos:
                sc = base(kind, ka, 0)
                epochs = [[{"start": 0, "prog": []}]]
                for k in range(nreq):
                    epochs[-1][0]["prog"].append(req(100 + k))
                    if k < nreq - 1:
                        b = betw[k]
                        if "close" in b and b != "loop+close":
                            epochs[-1][0]["prog"].append({"do": "close"})
                        if b == "sleep":
                            epochs[-1][0]["prog"].append({"do": "sleep", "d": 2 * T})
                        if "loop" in b:
                            epochs.append([{"start": 0, "prog": []}])
                            if b == "loop+close":
                                epochs[-1][0]["prog"].append({"do": "close"})
                        elif b == "none":
                            epochs[-1][0]["prog"].append({"do": "sleep", "d": 0})
                # a final well-answered request and a close(): the next request works, nothing stays open
                epochs[-1][0]["prog"] += [{"do": "sleep", "d": 0}, req(100 + nreq), {"do": "close"}]
                sc["epochs"] = epochs
                sc["rfaults"] = [[f] for f in faults] + [[{"k": "ans", "d": 1}]]
                sc["family"] = "lifecycle"
                out.append(sc)
                if len(epochs) > 1:
                    # the same history with the earlier loops left open (loops owned by the application, not asyncio.run)
                    sc2 = dict(sc)
                    sc2["keep_loops"] = True
                    out.append(sc2)
    return out


def fam_concurrent_close(tier: str, rnd: random.Random, limit: int) -> list[dict]:
    """C10/C06: a second task calls close() while a request is in flight."""
    out = []
    for kind in ("udp", "tcp"):
        for ka in (True, False):
            for at in range(0, 2 * T + 2):
                for f in ({"k": "ans", "d": 2}, {"k": "drop"}, {"k": "frag", "split": 6 if kind == "udp" else 10, "d": 1, "d2": 3, "second": "exact"}):
                    sc = base(kind, ka, 1)
                    sc["epochs"] = [[{"start": 0, "prog": [req(100), {"do": "sleep", "d": 0}, req(101)]},
                                     {"start": at, "prog": [{"do": "close"}]}]]
                    sc["rfaults"] = [[f, {"k": "ans", "d": 1}], [{"k": "ans", "d": 1}]]
                    sc["family"] = "cclose"
                    out.append(sc)
    return out


GEN_SHAPES = {"deep1": (1, 3, 4, False), "conc": (3, 2, 2, True)}   # callers, requests per caller, retries, assumption alphabet


def fam_tlcsim(run: Run, shape: str, num: int, seed: int) -> list[dict]:
    """Spec -> code beyond the exhaustive bound: behaviours of Protocol.tla generated by TLC's simulation mode
    (GenProto.tla prints the environment picks of every behaviour), turned into scenarios."""
    import concurrent.futures as cf
    nc, nreq, retries, assume = GEN_SHAPES[shape]
    out = []
    combos = [(kind, ka) for kind in ("udp", "tcp") for ka in (True, False)]

    def sim(args):
        kind, ka = args
        cfg = f"Gen_{kind}_{'ka' if ka else 'nka'}_{shape}"
        r = tlc.run_tlc("MC_Gen", cfg=cfg, workers=4, simulate=f"num={num}", depth=1500, timeout=1200,
                        extra=["-seed", str(seed + 1)])
        if not r["ok"]:
            raise engine.MachineryError(f"simulation of {cfg} failed (a behaviour of the design model violates the monitor?)\n"
                                        + r["stdout"][-2500:])
        return r

    with cf.ThreadPoolExecutor(max_workers=4) as ex:
        results = list(ex.map(sim, combos))
    for (kind, ka), r in zip(combos, results):
        fr = FRAMING[kind]
        recs = re.findall(r'PICKS\|(\{.*?\})"?\s*$', r["stdout"].replace('\\"', '"'), re.M)
        seen = set()
        for k, txt in enumerate(recs):
            if txt in seen:
                continue
            seen.add(txt)
            pk = json.loads(txt)
            sc = base(kind, ka, retries)
            callers = []
            reg = 100
            for c in range(nc):
                prog = []
                gaps = pk["gaps"][c] if c < len(pk["gaps"]) else []
                for j in range(nreq):
                    if j:
                        prog.append({"do": "sleep", "d": gaps[j - 1] if j - 1 < len(gaps) else 0})
                    prog.append(req(reg))
                    reg += 1
                callers.append({"start": pk["off"][c], "prog": prog})
            sc["epochs"] = [callers]
            sc["rfaults"] = [[concrete(mf, fr)[(k + i) % len(concrete(mf, fr))] for i, mf in enumerate(lst)] for lst in pk["rf"]]
            sc["connects"] = list(pk["conn"])
            sc["abstract"] = {"rf": pk["rf"], "conn": pk["conn"], "gap": 0, "gaps": pk["gaps"], "off": pk["off"], "shape": "G:" + shape}
            sc["assume"] = assume
            sc["family"] = "tlcsim"
            out.append(sc)
        run.cov["transitions"] += r.get("generated", 0)
    return out


def fam_random(n: int, rnd: random.Random, assume: bool = False, max_callers: int = 4) -> list[dict]:
    """Deeper random scenarios: more callers, more requests, retries up to 5, the whole alphabet."""
    out = []
    full = alphabet()["assume" if assume else "full"]
    for _ in range(n):
        kind = rnd.choice(["udp", "tcp"])
        fr = FRAMING[kind]
        ka = rnd.random() < 0.5
        retries = rnd.choice([0, 1, 2, 3, 5]) if not assume else rnd.choice([1, 2, 3])
        scale = rnd.choice([1, 1, 2, 6])
        nc = rnd.randint(2, max_callers) if assume else 1
        nreq = rnd.randint(1, 3)
        conc = [c for mf in full for c in concrete(mf, fr, scale)] + ([] if assume else [{"k": "fgarbage", "d": scale}])
        sc = base(kind, ka, retries, t=T * scale)
        callers = []
        reg = 100
        rfaults = []
        for c in range(nc):
            prog = []
            for k in range(nreq):
                if k:
                    prog.append({"do": "sleep", "d": rnd.choice([0, 0, 1, 3]) * scale})
                prog.append(req(reg))
                reg += 1
                rfaults.append([rnd.choice(conc) for _ in range(rnd.randint(0, retries + 1))] + (
                    [{"k": "ans", "d": scale}] if rnd.random() < 0.6 else []))
            callers.append({"start": 0 if c == 0 else rnd.choice([0, 1, 2, 4, 5, 9]) * scale, "prog": prog})
        sc["epochs"] = [callers]
        sc["rfaults"] = rfaults
        if not assume and kind == "tcp" and rnd.random() < 0.3:
            sc["connects"] = [rnd.choice(["ok", "refused", "hang", "unreach"]) for _ in range(rnd.randint(1, 3))]
        sc["assume"] = assume
        sc["family"] = "random"
        out.append(sc)
    return out


# ------------------------------------------------------------------------------------------------
# running and judging
# ------------------------------------------------------------------------------------------------
def run_one(sc: dict) -> dict:
    from .proto_driver import run_scenario
    return run_scenario(sc)


def execute_and_judge(run: Run, scenarios: list[dict], own_prefixes: tuple[str, ...]) -> list[dict]:
    traces = engine.parallel_map("harness.checks_proto", "run_one", scenarios, procs=16, chunk=40)
    run.last_traces = traces
    res = engine.judge_protocol_traces(traces, os.path.join(run.workdir, "batches"))
    run.cov["states"] += res["states"]
    run.cov["transitions"] += res["transitions"]
    run.cov["traces_validated_against_impl"] += len(traces)
    run.cov["evaluations"] += len(traces)
    fams: dict[str, int] = run.cov["families"]
    nontrivial = set()
    for sc, tr, verdict in zip(scenarios, traces, res["verdicts"]):
        fams[sc["family"]] = fams.get(sc["family"], 0) + 1
        # distinct non-trivial: distinct scenarios whose trace contains a network fault or >1 transmission
        sends = sum(1 for e in tr["ev"] if e["e"] == "SEND")
        nets = sum(1 for e in tr["ev"] if e["e"] in ("DLV", "PEERCLOSE", "ERR", "CONNFAIL"))
        if sends > len(tr["meta"]["cmds"]) or nets > len(tr["meta"]["cmds"]):
            nontrivial.add(json.dumps(sc, sort_keys=True))
        if tr["meta"]["status"] != "ok" and not any(c == "C04.Terminates" for c, _ in verdict):
            raise engine.MachineryError("hang not judged")
        for clause, idx in verdict:
            if clause.startswith("OBS."):
                run.observe(clause)
                continue
            if not clause.startswith(own_prefixes):
                run.notes_other = getattr(run, "notes_other", {})
                run.notes_other[clause] = run.notes_other.get(clause, 0) + 1
                continue
            detail = {"family": sc["family"], "kind": sc["kind"], "fr": sc["fr"], "ka": sc["ka"],
                      "retries": sc["retries"], "event": idx}
            run.violation(clause, detail, {"scenario": sc})
    run.cov["distinct_nontrivial"] += len(nontrivial)
    if len(run.cov["samples"]) < 3 and scenarios:
        k = len(scenarios) // 2
        tr = traces[k]
        run.cov["samples"].append({"scenario": scenarios[k],
                                   "trace": [{kk: (vv.hex() if isinstance(vv, (bytes, bytearray)) else vv)
                                              for kk, vv in e.items()} for e in tr["ev"]][:40],
                                   "verdict": res["verdicts"][k]})
    for clause, n in getattr(run, "notes_other", {}).items():
        note = f"clause {clause} of another property failed in {n} executions of this run (judged by that property's check)"
        if note not in run.notes:
            run.notes = [x for x in run.notes if not x.startswith(f"clause {clause} ")] + [note]


DLV_WHAT = {"ans": "ans", "late": "ans", "dup": "ans", "garbage": "garb", "short": "garb", "badcrc": "garb", "exc": "exc",
            "head": "head", "tail": "tail", "tail+1": "tailx", "tail-1": "tailx", "tailx": "tailc", "foreign": "ans",
            "foreigntail": "tail"}
CONF_KEEP = {"CALL", "RET", "SEND", "DLV", "OPEN", "CLOSE", "PEERCLOSE", "ERR", "CONN", "CONNFAIL", "UNHANDLED", "UCANCEL", "END"}


def conformance(run: Run, scenarios: list[dict], traces: list[dict], per_group: int, rnd: random.Random) -> None:
    """Code -> spec: the recorded events of script scenarios must be a behaviour of Protocol.tla under the same script."""
    groups: dict[tuple, list[int]] = {}
    for i, sc in enumerate(scenarios):
        if sc.get("family") == "script" and "abstract" in sc and sc["retries"] <= 3 and sc["T"] == T:
            groups.setdefault((sc["kind"], sc["ka"], f"r{sc['retries']}"), []).append(i)
        elif sc.get("family") in ("concurrent", "tlcsim", "cancel") and "abstract" in sc:
            groups.setdefault((sc["kind"], sc["ka"], sc["abstract"]["shape"]), []).append(i)
    total = drift = 0
    import concurrent.futures as cf
    jobs = []
    for (kind, ka, r), idx in sorted(groups.items()):
        if len(idx) > per_group:
            idx = rnd.sample(idx, per_group)
        scripts = []
        offgrid = [i for i in idx if any(not float(ev.get("t", 0)).is_integer() for ev in traces[i]["ev"])]
        if offgrid:
            # the model lives on the tick grid: an execution with events between ticks cannot be one of its behaviours
            drift += len(offgrid)
            total += len(offgrid)
            run.notes.append(f"DRIFT: {len(offgrid)} executions of group {kind}/{'ka' if ka else 'nka'}/{r} have events between ticks "
                             "(the library waited for a time the design model does not know)")
            idx = [i for i in idx if i not in set(offgrid)]
        for i in idx:
            sc, tr = scenarios[i], traces[i]
            trmap: dict[int, int] = {}
            evs = []
            # requests are numbered caller-major in the model: (caller - 1) * requests-per-caller + k
            nreq = max(sum(1 for st in c["prog"] if st["do"] == "req") for c in sc["epochs"][0])
            rmap: dict[int, int] = {}
            percaller: dict[int, int] = {}
            for ev in tr["ev"]:
                if ev["e"] == "CALL":
                    percaller[ev["c"]] = percaller.get(ev["c"], 0) + 1
                    rmap[ev["r"]] = (ev["c"] - 1) * nreq + percaller[ev["c"]]
            for ev in tr["ev"]:
                if ev["e"] not in CONF_KEEP:
                    continue
                d = {"e": ev["e"], "t": ev["t"], "r": rmap.get(ev.get("r", 0), 0), "tr": 0, "what": "", "out": ev.get("out", ""),
                     "why": ev.get("why", "")}
                if "tr" in ev:
                    d["tr"] = trmap.setdefault(ev["tr"], len(trmap) + 1)
                if ev["e"] == "DLV":
                    d["what"] = DLV_WHAT.get(ev.get("k", ""), "garb")
                evs.append(d)
            ncall = max(len(c) for c in sc["epochs"])
            scripts.append({"rf": sc["abstract"]["rf"], "conn": sc["abstract"]["conn"], "gap": sc["abstract"]["gap"],
                            "off": sc["abstract"].get("off", [0] * ncall), "gaps": sc["abstract"].get("gaps", []),
                            "uc": sc["abstract"].get("uc", []), "ev": evs})
        path = os.path.join(run.workdir, f"conform_{kind}_{'ka' if ka else 'nka'}_{r.replace(':', '_')}.json")
        tlc.write_json(path, scripts)
        cfgname = f"ConformG_{kind}_{'ka' if ka else 'nka'}_{r[2:]}" if r.startswith("G:") else f"Conform_{kind}_{'ka' if ka else 'nka'}_{r}"
        jobs.append((path, cfgname, idx))

    def one(job):
        path, cfg, idx = job
        r = tlc.run_tlc("MC_Conform", cfg=cfg, env={"VERIF_SCRIPTS": path}, workers=4, timeout=3000, heap="6g")
        return r

    with cf.ThreadPoolExecutor(max_workers=4) as ex:
        for (path, cfg, idx), r in zip(jobs, ex.map(one, jobs)):
            if not r["ok"]:
                if r.get("invariant_violated"):
                    run.notes.append(f"DRIFT: instance {cfg}: the monitor fails on a conforming behaviour of the model ({r['invariant_violated']})")
                    drift += 1
                else:
                    raise engine.MachineryError("ConformProtocol failed on " + cfg + "\n" + r["stdout"][-2500:])
            okp = {int(x) for x in re.findall(r'CONF\|(\d+)', r["stdout"])}
            run.cov["states"] += r.get("distinct", 0)
            run.cov["transitions"] += r.get("generated", 0)
            for k, i in enumerate(idx):
                total += 1
                if (k + 1) not in okp:
                    drift += 1
                    if drift <= 4:
                        run.notes.append("DRIFT: the design model Protocol.tla has no behaviour matching the recorded execution of script "
                                         + json.dumps({kk: scenarios[i].get(kk) for kk in ("kind", "ka", "retries", "rfaults", "connects", "epochs")})[:4000])
            os.remove(path)
    run.cov["conformance_scripts"] = total
    run.cov["conformance_drift"] = drift
    if drift:
        run.notes.append(f"DRIFT: {drift} of {total} recorded executions are not behaviours of Protocol.tla under their script; the exhaustive "
                         "model-checking result does not transfer to them until model and code are brought in line (not a violation by itself)")


RULE = ("scenarios are enumerated from the fault alphabet exported by the specification (ExportProto.tla) as "
        "complete products up to the stated depth, plus seeded random deeper ones; each is executed on the real "
        "protocol classes over the virtual-time loop and its boundary trace judged by TraceProtocol.tla; a scenario "
        "is non-trivial when its execution has more transmissions or more network events than requests; distinct = "
        "distinct scenario dictionaries")

ASSUMPTIONS = ["CPython asyncio semantics are taken from the real asyncio (only the selector and endpoint creation are replaced)",
               "fake transports follow the stock selector transports (close -> connection_lost via call_soon, no delivery after close)",
               "tick granularity timeout/4; 'same instant' orderings follow the stock selector loop (strict scheduler)",
               "TLC, SANY and the CommunityModules are trusted"]


def mc_cfgs(prop: str, tier: str) -> list[str]:
    q = {
        "C04": ["udp_ka_r1", "udp_nka_r1", "tcp_ka_r1", "tcp_nka_r1", "udp_ka_uc"],
        "C05": ["udp_ka_h3", "udp_nka_h3", "tcp_ka_h3", "tcp_nka_h3"],
        "C06": ["udp_ka_c2", "udp_nka_c2", "tcp_ka_c2", "tcp_nka_c2"],
        "C07": ["udp_ka_r1", "tcp_ka_r1"],
        "C08": ["udp_nka_r1", "tcp_nka_r1"],
        "C09": ["udp_ka_r0", "udp_nka_r0", "tcp_ka_r0", "tcp_nka_r0"],
        "C10": ["udp_ka_h3", "udp_nka_h3", "tcp_ka_h3", "tcp_nka_h3"],
    }[prop]
    if tier == "thorough":
        extra = {
            "C04": ["udp_ka_r0", "udp_nka_r0", "tcp_ka_r0", "tcp_nka_r0", "udp_ka_r2", "udp_nka_r2", "tcp_ka_r2", "tcp_nka_r2",
                    "udp_nka_uc", "tcp_ka_uc", "tcp_nka_uc"],
            "C05": ["udp_ka_r1", "udp_nka_r1", "tcp_ka_r1", "tcp_nka_r1"],
            "C06": ["udp_ka_c3", "udp_nka_c3", "tcp_ka_c3", "tcp_nka_c3"],
            "C07": ["udp_nka_r1", "tcp_nka_r1", "udp_ka_r2"],
            "C08": ["udp_ka_r1", "tcp_ka_r1", "udp_nka_r2"],
            "C09": ["udp_ka_r1", "udp_nka_r1", "tcp_ka_r1", "tcp_nka_r1"],
            "C10": ["udp_ka_r1", "udp_nka_r1", "tcp_ka_r1", "tcp_nka_r1", "udp_ka_c2", "tcp_nka_c2", "udp_nka_uc", "tcp_nka_uc"],
        }[prop]
        q = q + extra
    return ["MC_Proto_" + c for c in q]


def check(prop: str, tier: str, seed: int) -> int:
    run = Run(prop, tier, seed, "fault_enumeration" if prop == "C08" else "model_checking")
    run.cov["rule"] = RULE
    run.assumptions = list(ASSUMPTIONS)
    rnd = random.Random(seed)
    quick = tier == "quick"
    engine.run_mc(run, "MC_Proto", mc_cfgs(prop, tier))
    scen: list[dict] = []
    if prop == "C04":
        scen += fam_script([0, 1], [0], conn_variants=True)
        scen += fam_script([1], [2], conn_variants=False)
        scen += fam_random(300 if quick else 6000, rnd)
        scen += fam_tlcsim(run, "deep1", 10 if quick else 400, seed)
        scen += fam_cancel(tier, rnd, 200 if quick else None)
        # every exception code as the first answer (all command kinds): whatever the code means to the inverter, the budget
        # of transmissions and the deadline hold
        scen += [sc for sc in fam_exc(tier) if sc["rfaults"][0][0]["k"] == "exc" or not quick]
        if not quick:
            scen += fam_script([2], [0], conn_variants=False)
            scen += fam_script([1], [0], conn_variants=False, scale=2)
            scen += fam_script([0, 1], [0], conn_variants=False, scale=6)
            scen += fam_script([3], [0], conn_variants=False, limit=3000, rnd=rnd)
        own = ("C04.",)
    elif prop == "C05":
        scen += fam_script([0, 1], [0, 2], conn_variants=True)
        scen += fam_lifecycle(tier, rnd, 150 if quick else 1500)
        scen += fam_random(300 if quick else 6000, rnd)
        if not quick:
            scen += fam_script([2], [0, 2], conn_variants=False)
            scen += fam_script([1], [0], conn_variants=True, scale=2)
            scen += fam_script([1], [0], conn_variants=False, scale=6)
        own = ("C05.",)
    elif prop == "C06":
        scen += fam_concurrent([2], 1, [0, 1, T], tier, rnd, 400 if quick else 4000)
        scen += fam_concurrent([2], 2, [0, 1, T], tier, rnd, 300 if quick else 6000)
        scen += fam_concurrent([3], 1, [0, 1, T], tier, rnd, 300 if quick else 6000)
        scen += fam_random(200 if quick else 6000, rnd, assume=True, max_callers=4)
        scen += fam_tlcsim(run, "conc", 10 if quick else 400, seed)
        own = ("C06.",)
    elif prop == "C07":
        scen += fam_frag([1, 2, 8, 125] if quick else [1, 2, 3, 8, 33, 61, 124, 125], tier, rnd)
        scen += fam_script([1], [0], conn_variants=False)
        own = ("C07.",)
    elif prop == "C08":
        scen += fam_exc(tier)
        scen += fam_script([1], [0], conn_variants=False)
        own = ("C08.",)
    elif prop == "C09":
        scen += fam_oserr(tier)
        scen += fam_script([0, 1], [0], conn_variants=True)
        scen += fam_concurrent_close(tier, rnd, 0)
        scen += fam_random(300 if quick else 6000, rnd)
        own = ("C09.",)
    elif prop == "C10":
        scen += fam_lifecycle(tier, rnd, 400 if quick else 4000)
        scen += fam_concurrent_close(tier, rnd, 0)
        scen += fam_script([0, 1], [0], conn_variants=True)
        scen += fam_concurrent([2], 2, [0, 1, T], tier, rnd, 200 if quick else 3000)
        scen += fam_random(200 if quick else 4000, rnd)
        scen += fam_tlcsim(run, "conc", 5 if quick else 200, seed)
        scen += fam_tlcsim(run, "deep1", 5 if quick else 200, seed)
        scen += fam_cancel(tier, rnd, 100 if quick else None)
        own = ("C10.",)
    else:
        raise ValueError(prop)
    # witnesses of defects found earlier are always replayed
    scen += witnesses(prop)
    execute_and_judge(run, scen, own)
    conformance(run, scen, run.last_traces, 150 if quick else 1500, rnd)
    if prop in ("C05", "C06", "C08", "C09", "C10"):
        from . import checks_api
        checks_api.extend(run, prop, tier, rnd)
    if prop in ("C04", "C10") and not quick:
        # fidelity self-test of the virtual loop against real loopback sockets (never a verdict about the property)
        from . import selftest_loopback
        st = selftest_loopback.run_selftest()
        run.cov["loopback_selftest"] = {"scenarios": st["scenarios"], "mismatches": len(st["mismatches"]), "errors": st["errors"][:3]}
        for mm in st["mismatches"][:3]:
            run.notes.append("HARNESS-MISMATCH: virtual loop and real loopback sockets differ: " + json.dumps(mm)[:300])
    return run.finish()


CANCEL_ATS = (2, 5, 6)


def fam_cancel(tier: str, rnd: random.Random, limit: int | None = None) -> list[dict]:
    """Beyond the listed properties: the user of the library cancels the task of a request in flight (one caller, two
    requests, retries = 1; first request under every script of the cancellation alphabet x every cancellation instant,
    second request silent or answered).  Same constants as the instances MC_Proto_*_uc / Conform_*_uc."""
    out = []
    al = alphabet()["cancel"]
    for kind in ("udp", "tcp"):
        fr = FRAMING[kind]
        for ka in (True, False):
            scripts = list(itertools.product(al, repeat=2))
            for script in scripts:
                variants = [concrete(mf, fr) for mf in script]
                conc = [v[0] for v in variants]
                for ca in CANCEL_ATS:
                    for second in ([], [{"k": "ans", "d": 1}]):
                        sc = base(kind, ka, 1)
                        sc["epochs"] = [[{"start": 0, "prog": [req(100, cancel_after=ca), {"do": "sleep", "d": 0}, req(101)]}]]
                        sc["rfaults"] = [list(conc), list(second)]
                        sc["family"] = "cancel"
                        sc["abstract"] = {"rf": [list(script), [{"k": "ans", "d": 1, "d2": 0, "x": 0}] if second else []],
                                          "conn": [], "gap": 0, "uc": [ca, 0], "shape": "uc"}
                        out.append(sc)
    if limit is not None and len(out) > limit:
        out = rnd.sample(out, limit)
    return out


def fam_payload(tier: str, rnd: random.Random) -> list[dict]:
    """End to end: a conforming answer must be delivered as it is, whatever bytes it carries - in particular bytes that
    look like frame headers (AA55, AA557FC0), sentinels and checksums with special values - on every framing."""
    quick = tier == "quick"
    out = []
    regs = [0xAA55, 0x55AA, 0xFFFF, 0x0000, 0x7FC0, 0xC07F, 0x00AA, 0x5500, 0xA55A, 0x0103, 0xF703]
    pats = ["aa55", "55aa", "00aa5500", "aa557fc0", "aa55c07f", "ffff", "0000", "aa", "0055aa", "f7030455aa"]
    if not quick:
        regs += [rnd.randrange(65536) for _ in range(40)]
        pats += [bytes(rnd.randrange(256) for _ in range(rnd.choice([2, 3, 5, 8]))).hex() for _ in range(40)]
    for kind, fr in (("udp", "rtu"), ("udp", "aa55"), ("tcp", "tcp")):
        for ka in (True, False):
            for n in ((1, 2, 5, 125) if quick else (1, 2, 3, 5, 8, 33, 64, 124, 125)):
                if fr == "aa55" and n > 120:
                    continue
                for reg in regs:
                    sc = base(kind, ka, 0, fr)
                    sc.update(family="payload", epochs=[[{"start": 0, "prog": [req(reg, n=n)]}]], rfaults=[[{"k": "ans", "d": 1}]])
                    out.append(sc)
                for pi, pat in enumerate(pats):
                    reg = 200 + pi
                    sc = base(kind, ka, 0, fr)
                    f = {"k": "ans", "d": 1}
                    if fr == "rtu" and pi % 2:
                        f = {"k": "anstrail", "d": 1, "trail": pats[(pi + n) % len(pats)]}
                    sc.update(family="payload", epochs=[[{"start": 0, "prog": [req(reg, n=n)]}]], rfaults=[[f]], payloads={str(reg): pat})
                    out.append(sc)
            if fr == "aa55":
                # AA55 answers of every announced payload length (also none at all) to every kind of command
                for ln in ((0, 1, 2, 3, 7, 9, 64, 254, 255) if quick else range(256)):
                    for step in (req(300, n=1), req(301, n=4), req(302, "write", v=7)):
                        sc = base(kind, ka, 0, fr)
                        sc.update(family="payload", epochs=[[{"start": 0, "prog": [dict(step)]}]], rfaults=[[{"k": "ans", "d": 1}]],
                                  aa55_len=ln)
                        out.append(sc)
            if fr != "aa55":
                for reg in regs[:6]:
                    for v in (0xAA55 - 65536, 0x55AA, -1, 0, 0x7FC0):
                        sc = base(kind, ka, 0, fr)
                        sc.update(family="payload", epochs=[[{"start": 0, "prog": [req(reg, op="write", v=v)]}]],
                                  rfaults=[[{"k": "ans", "d": 1}]])
                        out.append(sc)
    return out


def fam_invalid(tier: str, rnd: random.Random) -> list[dict]:
    """End to end for C01: the valid answer mutated by every wire-level mutation class, delivered whole and in two pieces
    (cut before / inside / after the header) to a running protocol object; whatever completes the request must be a frame the
    specification accepts for the command."""
    quick = tier == "quick"
    out = []
    for kind, fr in (("udp", "rtu"), ("udp", "aa55"), ("tcp", "tcp")):
        steps = [req(100, n=2), req(100, n=8), req(100, "write", v=5)]
        if fr != "aa55":
            steps.append(req(100, "wmulti", payload="0011223344556677"))
        for step in steps:
            for i in range(48 if quick else 400):
                for split in ((0, 5, 9, 12) if quick else (0, 3, 5, 7, 8, 9, 10, 12, 15)):
                    sc = base(kind, True, 0, fr)
                    sc.update(family="invalid", epochs=[[{"start": 0, "prog": [dict(step)]}]],
                              rfaults=[[{"k": "mut", "i": i, "split": split, "d": 1, "d2": 2, "seed": 1 + i % 7}]])
                    out.append(sc)
    return out


def wire_level(run: Run, prop: str, tier: str, rnd: random.Random) -> None:
    """The parts of C02 / C03 that only show on the wire of a running protocol object: C02 - a conforming answer is
    delivered whatever its bytes look like; C03 - what is transmitted (also on retransmissions and after failed
    connects) is the command's canonical frame, with a Modbus/TCP transaction id that changes with every transmission."""
    if prop == "C02":
        scen = fam_payload(tier, rnd)
    elif prop == "C01":
        scen = fam_invalid(tier, rnd)
    else:
        scen = fam_script([1], [0], faults_key="hist", conn_variants=True)
        if tier != "quick":
            scen += fam_script([2], [0], faults_key="hist", conn_variants=False)
    execute_and_judge(run, scen, (prop + ".",))


def witnesses(prop: str) -> list[dict]:
    d = os.path.join(tlc.VERIF, "witness")
    out = []
    if os.path.isdir(d):
        for fn in sorted(os.listdir(d)):
            if fn.endswith(".json"):
                with open(os.path.join(d, fn)) as f:
                    w = json.load(f)
                if w.get("layer") == "protocol" and prop in w.get("properties", []):
                    sc = w["scenario"]
                    sc["family"] = "witness"
                    out.append(sc)
    return out
