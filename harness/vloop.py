"""Virtual-time asyncio loop with fake transports.

The real asyncio Task/Future/Lock/wait_for/TimerHandle machinery runs unmodified; only the
selector (which would sleep) and the two endpoint factories are replaced.  Ordering inside one
loop iteration follows the stock selector loop: I/O events that are due are handed over by
select() (strict mode: at most one read event per transport and iteration), then the timers
that are due, everything appended behind what call_soon() queued before.

Time is kept in integer ticks (TICK seconds each, a power of two so that float arithmetic on
the clock is exact); all scripts use whole ticks.
"""
from __future__ import annotations

import asyncio
import errno
import heapq
import itertools
import selectors

TICK = 0.125  # seconds per tick; exact in binary floating point


class Hang(Exception):
    """The loop has nothing left to run but the main coroutine is not finished."""


class HorizonExceeded(Exception):
    """Virtual time passed the horizon of the run (a request that never ends)."""


class _Selector(selectors.DefaultSelector):
    def __init__(self, loop: "VLoop"):
        super().__init__()
        self._vloop = loop

    def select(self, timeout=None):
        loop = self._vloop
        nxt = loop._io[0][0] if loop._io else None
        if timeout is None:
            if nxt is None:
                raise Hang("nothing scheduled")
            loop._ticks = max(loop._ticks, nxt)
        elif timeout > 0:
            tgt = loop._ticks + timeout / TICK
            tgt_i = int(round(tgt))
            if abs(tgt - tgt_i) > 1e-6:
                # a timer that is not on the tick grid: keep exact fractional time
                tgt_i = tgt
            if nxt is not None and nxt < tgt_i:
                tgt_i = nxt
            loop._ticks = max(loop._ticks, tgt_i)
        if loop._ticks > loop.horizon:
            raise HorizonExceeded(loop._ticks)
        seen = set()
        keep = []
        while loop._io and loop._io[0][0] <= loop._ticks:
            at, n, trid, fn = heapq.heappop(loop._io)
            if loop.strict and trid in seen:
                keep.append((at, n, trid, fn))
                continue
            seen.add(trid)
            loop.call_soon(fn)
        for k in keep:
            heapq.heappush(loop._io, k)
        return super().select(0)


class VLoop(asyncio.SelectorEventLoop):
    """Selector event loop on virtual time.

    rec(event_dict) is called for every boundary crossing; peer(transport, data) for every
    transmission; connect(kind) -> (outcome, delay_ticks) scripts endpoint creation.
    """

    def __init__(self, strict: bool = True, horizon: int = 100000, t0: int = 0):
        self._ticks = t0
        self._io: list = []
        self._n = itertools.count()
        self.strict = strict
        self.horizon = horizon
        super().__init__(_Selector(self))
        self.events: list[dict] = []
        self.transports: list[FakeTransport] = []
        self.unhandled: list[dict] = []
        self.peer = lambda tr, data: None
        self.connect_script = lambda kind: ("ok", 0)
        self.set_exception_handler(self._on_unhandled)

    # -- time ---------------------------------------------------------------------------
    def time(self):
        return self._ticks * TICK

    @property
    def ticks(self):
        return self._ticks

    def _run_once(self):
        # make the base loop compute a select() timeout when only I/O deliveries are pending
        if not self._ready and not self._scheduled and self._io:
            self.call_at(self._io[0][0] * TICK, lambda: None)
        super()._run_once()

    def io_at(self, at_ticks, tr, fn):
        heapq.heappush(self._io, (at_ticks, next(self._n), id(tr), fn))

    # -- recording ----------------------------------------------------------------------
    def rec(self, e: str, **kw):
        ev = {"e": e, "t": self._ticks}
        ev.update(kw)
        self.events.append(ev)
        return ev

    def _on_unhandled(self, loop, context):
        exc = context.get("exception")
        self.unhandled.append(context)
        self.rec("UNHANDLED", exc=type(exc).__name__ if exc is not None else str(context.get("message")))

    # -- endpoints ----------------------------------------------------------------------
    async def create_datagram_endpoint(self, protocol_factory, local_addr=None, remote_addr=None, **kw):
        outcome, delay = self.connect_script("udp")
        if outcome != "ok":
            await asyncio.sleep(0)  # the stock loop suspends at least once before failing
            self.rec("CONNFAIL", kind="udp", why=outcome)
            raise _connect_error(outcome)
        protocol = protocol_factory()
        tr = FakeTransport(self, protocol, "udp")
        self.transports.append(tr)
        self.rec("OPEN", tr=tr.id, kind="udp")
        # as the stock loop: connection_made via call_soon, then wait for it
        waiter = self.create_future()
        self.call_soon(protocol.connection_made, tr)
        self.call_soon(lambda: waiter.done() or waiter.set_result(None))
        await waiter
        return tr, protocol

    async def create_connection(self, protocol_factory, host=None, port=None, **kw):
        outcome, delay = self.connect_script("tcp")
        self.rec("CONN", why=outcome)
        if outcome == "hang":
            await self.create_future()  # never completes; wait_for() cancels it
        if delay:
            await asyncio.sleep(delay * TICK)
        elif outcome != "ok":
            await asyncio.sleep(0)  # the stock loop suspends at least once before failing
        if outcome != "ok":
            self.rec("CONNFAIL", kind="tcp", why=outcome)
            raise _connect_error(outcome)
        protocol = protocol_factory()
        tr = FakeTransport(self, protocol, "tcp")
        self.transports.append(tr)
        self.rec("OPEN", tr=tr.id, kind="tcp")
        waiter = self.create_future()
        self.call_soon(protocol.connection_made, tr)
        self.call_soon(lambda: waiter.done() or waiter.set_result(None))
        await waiter
        return tr, protocol


def _connect_error(outcome: str) -> Exception:
    if outcome == "refused":
        return ConnectionRefusedError(errno.ECONNREFUSED, "Connection refused")
    if outcome == "unreach":
        return OSError(errno.EHOSTUNREACH, "No route to host")
    if outcome == "netunreach":
        return OSError(errno.ENETUNREACH, "Network is unreachable")
    return OSError(errno.EIO, outcome)


class FakeTransport(asyncio.Transport):
    """Follows the transport contract the library relies on (see DESIGN.md section 3)."""

    _ids = itertools.count(1)

    def __init__(self, loop: VLoop, protocol, kind: str):
        super().__init__()
        self.loop = loop
        self.protocol = protocol
        self.kind = kind
        self.closing = False
        self.lost = False
        self.peer_gone = False       # the peer has closed its side: what is written from now on reaches nobody
        self.id = next(FakeTransport._ids)
        self.loop_closed_check = True

    def get_extra_info(self, name, default=None):
        return default

    def is_closing(self):
        return self.closing

    def _lost(self, exc, by):
        if self.lost:
            return
        self.lost = True
        self.loop.rec("LOST", tr=self.id, by=by)
        self.protocol.connection_lost(exc)

    def close(self):
        if self.closing:
            return
        self.closing = True
        if self.loop.is_closed():
            # stock transport: _closing is set, then call_soon() raises on the closed loop
            raise RuntimeError("Event loop is closed")
        self.loop.rec("CLOSE", tr=self.id)
        self.loop.call_soon(self._lost, None, "self")

    def abort(self):
        self.close()

    def sendto(self, data, addr=None):
        self.write(data)

    def write(self, data):
        if self.closing:
            self.loop.rec("SENDDROP", tr=self.id)
            return
        self.loop.rec("SEND", tr=self.id, data=bytes(data))
        if not self.peer_gone:
            self.loop.peer(self, bytes(data))

    # -- environment side -----------------------------------------------------------------
    def deliver(self, data: bytes, delay: int = 0, kind: str = ""):
        def d():
            if self.closing:
                self.loop.rec("DLVDROP", tr=self.id)
                return
            self.loop.rec("DLV", tr=self.id, data=bytes(data), k=kind)
            if self.kind == "udp":
                self.protocol.datagram_received(data, ("peer", 8899))
            else:
                self.protocol.data_received(data)

        self.loop.io_at(self.loop.ticks + delay, self, d)

    def peer_close(self, delay: int = 0, exc: Exception | None = None, eof: bool = False):
        def d():
            if self.closing:
                return
            self.loop.rec("PEERCLOSE", tr=self.id, err=getattr(exc, "errno", None) if exc else None, eof=eof)
            self.peer_gone = True
            if eof and self.kind == "tcp":
                # stock loop: eof_received(); falsy result -> transport.close()
                keep_open = self.protocol.eof_received()
                if not keep_open:
                    self.close()
                return
            # stock loop: _fatal_error -> _force_close -> call_soon(connection_lost, exc)
            self.closing = True
            self.loop.call_soon(self._lost, exc, "peer")

        self.loop.io_at(self.loop.ticks + delay, self, d)

    def sync_error(self, exc: Exception):
        """The send itself fails (stock datagram transport: sendto() catches the OSError of socket.send and calls
        error_received() before it returns).  Only meaningful while sendto() is on the stack: the peer callback calls it."""
        if self.closing:
            return
        self.loop.rec("ERR", tr=self.id, err=getattr(exc, "errno", None))
        self.protocol.error_received(exc)

    def send_error(self, exc: Exception, delay: int = 0):
        """ICMP-style asynchronous error reported through error_received (UDP)."""

        def d():
            if self.closing:
                return
            self.loop.rec("ERR", tr=self.id, err=getattr(exc, "errno", None))
            self.protocol.error_received(exc)

        self.loop.io_at(self.loop.ticks + delay, self, d)


def new_loop(strict: bool = True, horizon: int = 100000, t0: int = 0) -> VLoop:
    loop = VLoop(strict=strict, horizon=horizon, t0=t0)
    asyncio.set_event_loop(loop)
    return loop


def run(loop: VLoop, coro):
    """Run coro to completion; returns ('ok', result) / ('hang', None) / ('horizon', None)."""
    try:
        return "ok", loop.run_until_complete(coro)
    except Hang:
        loop.rec("HANG")
        return "hang", None
    except HorizonExceeded:
        loop.rec("HANG", why="horizon")
        return "horizon", None
