"""C19: operation mode / export limit / depth-of-discharge round trips, judged by TraceModes.tla."""
from __future__ import annotations

import itertools
import os
import random
import sys

sys.path.insert(0, os.environ.get("VERIF_REPO", "/repo"))

from . import engine, tlc  # noqa: E402
from .checks_decode import device_regs, es_info, val  # noqa: E402
from .checks_inverter import ET_BLOCKS, serial_for  # noqa: E402
from .engine import Run  # noqa: E402

ABSENT = {"k": "absent", "a": [], "s": ""}

V2_PRIORS = {
    "zeros": "000000000000000000000000",
    "charge247": "0000173bff7fffce00640000",
    "discharge247": "0000173bff7f003200640000",
    "charge247_745": "0000173bf97ffe0c00640fff",
    "partial": "0d1e0e28ff1affc400500000",
    "off": "300030000000006400640000",
    "peak": "0000173bfc7f006400640000",
    "peak247neg": "0000173bfc7fff9c00640000",
    "unset": "300030005500006400640000",
    "garbage": "c3c3c3c3c3c3c3c3c3c3c3c3",
}
V1_PRIORS = {
    "zeros": "0000000000000000",
    "charge247": "0000173bffceff7f",
    "discharge247": "0000173b0032ff7f",
    "partial": "0d1e0e28ffc4ff1a",
    "off": "3000300000640000",
    "garbage": "c3c3c3c3c3c3c3c3",
}



def typed_priors(fmt: str) -> dict:
    """First-group contents of every schedule type (on/off byte, enabled and disabled), well-formed and with one later field
    out of range (such a group is undecodable as a whole, but a decoder may already have taken the type from it)."""
    out = {}
    if fmt != "v2":
        return {"t_badpower": "0d1e0e287fffff1a", "t_badonoff": "0d1e0e280032551a", "t_badday": "0d1e0e280032ff80"}
    for oo in (0x01, 0x02, 0x03, 0x04, 0x05, 0x06, 0xFE, 0xFD, 0xFC, 0xFB, 0xFA, 0xF9):
        for name, soc, months in (("ok", "0064", "0000"), ("socffff", "ffff", "0000"), ("soc101", "0065", "0000"), ("monthsffff", "0064", "ffff")):
            out[f"t{oo:02x}_{name}"] = "0d1e0e28" + f"{oo:02x}" + "1a" + "0032" + soc + months      # not an every-day 24 h group
    # every-day 24 h groups that are switched OFF (typed off codes 1..6, "not set"), charging and discharging power
    for oo in (0x01, 0x02, 0x03, 0x04, 0x05, 0x06, 0x55):
        for pname, pw in (("chg", "ffce"), ("dis", "0032")):
            out[f"off247_{oo:02x}_{pname}"] = "0000173b" + f"{oo:02x}" + "7f" + pw + "0064" + "0000"
    return out


VARIANTS = [  # name, family, tag, port, refused blocks, es firmware, group format, group-1 address (registers)
    ("et205_v2", "ET", "ETU", 8899, (), "", "v2", 47547),
    ("et205_v2_tcp", "ET", "ETU", 502, (), "", "v2", 47547),
    ("et205_v1", "ET", "ETU", 8899, ("eco_v2", "peak"), "", "v1", 47515),
    ("et745_v2", "ET", "ETT", 8899, (), "", "v2", 47547),
    ("et205_nopeak", "ET", "EHU", 8899, ("peak",), "", "v2", 47547),
    ("es_v1", "ES", "ESU", 8899, (), "1010A", "v1", 1793),
    ("es_v2", "ES", "ESU", 8899, (), "2224E", "v2", 47547),
]


# the DT family has the export limit only (another register and unit on single-phase models)
DT_VARIANTS = [("dt_three", "DT", "DTU", 8899, (), "", "", 0), ("dt_single", "DT", "DSN", 8899, (), "", "", 0),
               ("dt_three_tcp", "DT", "DTS", 502, (), "", "", 0)]


def group_addr(variant, k: int) -> tuple[int, int]:
    """(first register, register count) of eco-mode group k = 1..4: the groups follow each other."""
    glen = 6 if variant[6] == "v2" else 4
    return variant[7] + (k - 1) * glen, glen


def inv_spec(variant, prior_hex: str, others_hex: str | None = None) -> dict:
    name, fam, tag, port, refused, fw, fmt, g1 = variant
    serial = serial_for(tag) if fam != "ES" else "95048ESU000W0000"
    regs = device_regs(fam, serial, 10000)
    b = bytes.fromhex(prior_hex) if g1 else b""
    for i in range(len(b) // 2):
        regs[g1 + i] = int.from_bytes(b[2 * i:2 * i + 2], "big")
    if others_hex and g1:
        ob = bytes.fromhex(others_hex)
        for k in (2, 3, 4):
            a, n = group_addr(variant, k)
            for i in range(min(n, len(ob) // 2)):
                regs[a + i] = int.from_bytes(ob[2 * i:2 * i + 2], "big")
    sim = {"regs": regs, "refused": [list(ET_BLOCKS[n]) for n in refused]}
    if fam == "ES":
        sim["aa55"] = {"info": list(es_info(serial, fw))}
    return {"family": fam, "port": port, "sim": sim, "retries": 0}


def mode_program(variant, prior: str, prior_hex: str, mode: int, power: int, soc: int, others: str = "zeros",
                 start_mode: int = 0) -> dict:
    fam = variant[1]
    calls = [{"api": "read_device_info"}, {"api": "get_operation_modes", "args": [True]},
             {"api": "set_operation_mode", "args": [{"opmode": mode}, power, soc]},
             {"api": "get_operation_mode"}, {"api": "read_setting", "args": ["eco_mode_1"]}]
    if fam == "ET":
        calls += [{"api": "read_setting", "args": [f"eco_mode_{k}_switch"]} for k in (2, 3, 4)]
    # the content of the other groups afterwards, taken from the simulated inverter itself (not through the library's tables)
    calls += [{"api": "sim:read", "args": list(group_addr(variant, k))} for k in (2, 3, 4)]
    pri = V2_PRIORS if variant[6] == "v2" else V1_PRIORS
    spec = inv_spec(variant, prior_hex, pri.get(others))
    # the mode the inverter is in beforehand (work mode register; ES: settings byte 66)
    spec["sim"]["regs"][47000] = start_mode
    spec["sim"]["regs"][0x0550 + 33] = start_mode << 8 | start_mode
    return {"inv": [spec], "calls": calls,
            "case": {"variant": variant[0], "prior": prior, "others": others, "start": start_mode, "mode": mode, "power": power,
                     "soc": soc, "fmt": variant[6]}}


def seq_program(variant, seq: list[tuple[int, int, int]], prior: str, prior_hex: str) -> dict:
    """Several set_operation_mode calls on ONE object, the mode read back after each."""
    calls = [{"api": "read_device_info"}, {"api": "get_operation_modes", "args": [True]}]
    for mode, p, s_ in seq:
        calls += [{"api": "set_operation_mode", "args": [{"opmode": mode}, p, s_]}, {"api": "get_operation_mode"}]
    return {"inv": [inv_spec(variant, prior_hex)], "calls": calls,
            "case": {"variant": variant[0], "prior": prior, "seq": [list(x) for x in seq], "fmt": variant[6]}}


def limit_program(variant, what: str, value: int) -> dict:
    setter, getter = ("set_grid_export_limit", "get_grid_export_limit") if what == "export" else \
        ("set_ongrid_battery_dod", "get_ongrid_battery_dod")
    return {"inv": [inv_spec(variant, "00" * 12)],
            "calls": [{"api": "read_device_info"}, {"api": setter, "args": [value]}, {"api": getter}],
            "case": {"variant": variant[0], "what": what, "value": value}}


def run_mode_program(prog: dict) -> dict:
    from . import inv_driver
    old = inv_driver.proj

    def pj(v, den=None):
        if hasattr(v, "value") and hasattr(v, "name"):
            return {"k": "enum", "v": int(v.value)}
        if isinstance(v, (tuple, list)):
            return {"k": "list", "v": [int(getattr(x, "value", -1)) for x in v]}
        return val(v)
    inv_driver.proj = pj
    try:
        tr = inv_driver.run_program(prog)
    finally:
        inv_driver.proj = old
    rets = [ev for ev in tr["ev"] if ev["e"] == "RET"]
    c = dict(prog["case"])
    c["_oplog"] = tr.get("oplog", [])
    if "seq" in c:
        # one record per step; the content of the first group before a step follows from the step before it
        modes = rets[1].get("val", {}).get("v", []) if rets[1].get("ok") else []
        steps = []
        prior = c["prior"]
        for k, (mode, p, s_) in enumerate(c["seq"]):
            rs, rg = rets[2 + 2 * k], rets[3 + 2 * k]
            v = rg.get("val") or {}
            steps.append({"kind": "seqstep", "variant": c["variant"], "fmt": c["fmt"], "prior": prior, "mode": mode, "step": k + 1,
                          "seq": [x[0] for x in c["seq"]], "offered": mode in modes, "setok": bool(rs.get("ok")),
                          "getok": bool(rg.get("ok")), "getexc": rg.get("exc", ""),
                          "got": v["v"] if rg.get("ok") and v.get("k") == "enum" else -1})
            if rs.get("ok") and mode in (98, 99):
                prior = ("charge247" if mode == 98 else "discharge247") + ("_745" if "745" in c["variant"] and mode == 98 else "")
        return {"kind": "seq", "steps": steps, "status": tr["status"], "_oplog": c["_oplog"]}
    if "what" in c:
        c.update(kind="limit", setok=bool(rets[1].get("ok")), getok=bool(rets[2].get("ok")), got=-1)
        v = rets[2].get("val") or {}
        if rets[2].get("ok") and v.get("k") == "num" and len(v["a"]) == 3 and v["a"][0] == 1:
            c["got"] = -v["a"][2] if v["a"][1] else v["a"][2]
        c["status"] = tr["status"]
        return c
    modes = rets[1].get("val", {}).get("v", []) if rets[1].get("ok") else []
    c.update(kind="mode", offered=c["mode"] in modes, setok=bool(rets[2].get("ok")), setexc=rets[2].get("exc", ""),
             getok=bool(rets[3].get("ok")), getexc=rets[3].get("exc", ""), got=-1, g1=ABSENT, sw=[], v2=c["fmt"] != "v1")
    v = rets[3].get("val") or {}
    if rets[3].get("ok") and v.get("k") == "enum":
        c["got"] = v["v"]
    if len(rets) > 4 and rets[4].get("ok"):
        g = rets[4]["val"]
        c["g1"] = {"k": g["k"], "a": g["a"], "s": g["s"]}
    c["raw"] = []
    for r in rets[5:]:
        if r.get("api") == "sim:read":
            c["raw"].append(r["val"]["b"])
        elif r.get("ok"):
            x = r["val"]
            c["sw"].append({"k": x["k"], "a": x["a"], "s": x["s"]})
        else:
            c["sw"].append(ABSENT)
    c["status"] = tr["status"]
    return c


def enc_cases() -> list[dict]:
    from goodwe.protocol import ProtocolResponse
    from goodwe.sensor import EcoModeV1, EcoModeV2, ScheduleType
    out = []
    for fmt in ("v1", "v2", "v2_745"):
        if fmt == "v1":
            g = EcoModeV1("eco_mode_1", 47515, "")
        else:
            g = EcoModeV2("eco_mode_1", 47547, "")
            if fmt == "v2_745":
                g.read_value(ProtocolResponse(bytes.fromhex(V2_PRIORS["charge247_745"]), None))
            g.set_schedule_type(ScheduleType.ECO_MODE, fmt == "v2_745")
        for p in range(1, 101):
            for soc in (range(0, 101) if fmt != "v1" else (100,)):
                out.append({"kind": "enc", "fmt": fmt, "charge": True, "power": p, "soc": soc,
                            "bytes": list(g.encode_charge(p, soc))})
            out.append({"kind": "enc", "fmt": fmt, "charge": False, "power": p, "soc": 100, "bytes": list(g.encode_discharge(p))})
    return out


CASE_DEFAULT = {"step": 0, "kind": "", "fmt": "v2", "charge": False, "power": 0, "soc": 0, "bytes": [], "mode": 0, "setok": False,
                "getok": False, "got": -1, "g1": ABSENT, "sw": [], "raw": [], "v2": True, "value": 0}


def judge(run: Run, cases: list[dict], batch: int = 8000) -> list[list[str]]:
    verdicts = []
    for b0 in range(0, len(cases), batch):
        js = []
        for c in cases[b0:b0 + batch]:
            d = dict(CASE_DEFAULT)
            for k in CASE_DEFAULT:
                if k in c:
                    d[k] = c[k]
            js.append(d)
        path = os.path.join(run.workdir, f"modes_{b0}.json")
        tlc.write_json(path, {"cases": js})
        r = tlc.run_tlc("TraceModes", env={"VERIF_BATCH": path}, workers=16, timeout=3000)
        if not r["ok"]:
            raise engine.MachineryError("TraceModes failed\n" + r["stdout"][-3000:])
        v = tlc.parse_verdicts(r["stdout"])
        if len(v) != len(js):
            raise engine.MachineryError(f"{len(v)} verdicts for {len(js)} cases")
        verdicts += [[c for c, _ in v[k + 1]] for k in range(len(js))]
        run.cov["states"] += r.get("distinct", 0)
        run.cov["transitions"] += r.get("generated", 0)
        os.remove(path)
    return verdicts


def check(prop: str, tier: str, seed: int) -> int:
    run = Run(prop, tier, seed, "model_checking")
    quick = tier == "quick"
    rnd = random.Random(seed)
    run.cov["rule"] = ("encoder level: the complete grid power 1..100 x SoC 0..100 x {v1, v2, v2 with 745 scaling} of encode_charge / "
                       "encode_discharge compared with TraceModes!GroupBytes, whose decoding to the requested power/SoC and recognition as "
                       "charge/discharge pattern is checked by TLC for the whole grid (ASSUME); end to end: every offered mode x a (power, SoC) "
                       "grid x firmware variants x prior contents of the first group on simulated inverters, then get_operation_mode / "
                       "read_setting; export limit and DoD values; non-trivial = the setter succeeded; distinct = distinct case records")
    run.assumptions = ["ES family: the AA55 control commands are given the semantics implied by the library's own getter/setter pairing "
                       "(0x0359 work mode <-> settings byte 66, 0x0335 export limit <-> byte 52, register 0x0560 <-> byte 32)",
                       "SoC is demanded for ECO_CHARGE on the 12-byte group format only (the 8-byte format carries none)",
                       "TLC, SANY and the CommunityModules are trusted"]
    cases = enc_cases()
    progs = []
    grid = [(1, 0), (100, 100), (37, 55), (10, 1), (50, 100), (99, 99)] if quick else \
        [(p, s) for p in (1, 2, 5, 9, 10, 11, 25, 33, 50, 64, 75, 90, 99, 100) for s in (0, 1, 10, 33, 50, 77, 99, 100)]
    for variant in VARIANTS:
        priors = V2_PRIORS if variant[6] == "v2" else V1_PRIORS
        for prior, hx in priors.items():
            for mode in (0, 1, 2, 3, 4, 5, 98, 99):
                gg = grid if mode in (98, 99) else grid[:1]
                if quick and prior not in ("zeros", "charge247", "garbage", "unset", "charge247_745", "peak") and mode in (98, 99):
                    gg = grid[:2]
                for p, s in gg:
                    # the other three groups start empty, as enabled 24/7 groups, or as another enabled schedule
                    others = ("zeros", "charge247", "discharge247" if variant[6] != "v2" else "peak")[len(progs) % 3]
                    progs.append(mode_program(variant, prior, hx, mode, p, s, others, start_mode=(len(progs) // 3) % 6))
        for prior, hx in typed_priors(variant[6]).items():
            for mode in ((98, 99, 3) if quick else (0, 1, 2, 3, 4, 5, 98, 99)) if not prior.startswith('off247') else (3, 98, 99, 0):
                for p, s in (grid[2:3] if quick else grid[:3]):
                    progs.append(mode_program(variant, prior, hx, mode, p, s, "zeros", start_mode=(len(progs) // 3) % 6))
    if not quick:
        v = VARIANTS[0]
        for p in range(1, 101):
            for s in range(0, 101, 1 if p % 10 == 0 else 25):
                progs.append(mode_program(v, "zeros", V2_PRIORS["zeros"], 98, p, s))
    for variant in VARIANTS + DT_VARIANTS:
        for x in [0, 1, 100, 255, 256, 3000, 10000, 32767, 32768, 65534] + [rnd.randrange(65535) for _ in range(5 if quick else 100)]:
            progs.append(limit_program(variant, "export", x))
        if variant[1] == "DT":
            continue            # no battery: the DoD calls are documented as unsupported
        # quick: both ends of the documented range and their neighbours, then every seventh value
        for d in (sorted({0, 1, 2, 50, 98, 99, 100} | set(range(0, 101, 7))) if quick else range(0, 101)):
            progs.append(limit_program(variant, "dod", d))
    # sequences on one object: a, b, a for all pairs of modes (thorough: all triples), on every ET / ES variant
    allmodes = (0, 1, 2, 3, 4, 5, 98, 99)
    for variant in VARIANTS:
        pri = V2_PRIORS if variant[6] == "v2" else V1_PRIORS
        triples = [(a, b, a) for a in allmodes for b in allmodes if a != b]
        if not quick:
            triples = list(itertools.product(allmodes, repeat=3))
        elif len(triples) > 30:
            triples = rnd.sample(triples, 30) + [(a, b, a) for a in (0, 1, 2, 4, 5) for b in (98, 99)][:: 2 if variant[3] == 502 else 1]
        for tri in dict.fromkeys(triples):
            progs.append(seq_program(variant, [(m, 30 + 7 * k, 40 + 9 * k) for k, m in enumerate(tri)], "zeros", pri["zeros"]))
    res = engine.parallel_map("harness.checks_modes", "run_mode_program", progs, procs=16, chunk=20)
    for c in res:
        if c["status"] != "ok":
            raise engine.MachineryError("mode program did not finish")
    res = [c for c in res if c["kind"] != "seq"] + [st for c in res if c["kind"] == "seq" for st in
                                                    ([dict(c["steps"][0], _oplog=c["_oplog"])] + c["steps"][1:])]
    from . import checks_sim
    checks_sim.model_check(run, tier)
    checks_sim.validate_logs(run, [lg for c in res for lg in c.pop("_oplog", [])], sample=150 if quick else 3000, seed=seed)
    live = [c for c in res if c["kind"] == "limit" or c.get("offered")]
    allc = cases + live
    verdicts = judge(run, allc)
    n_set = 0
    for c, v in zip(allc, verdicts):
        run.cov["evaluations"] += 1
        if c["kind"] == "enc" or c.get("setok"):
            n_set += 1
        for clause in v:
            if clause.startswith("INFO."):
                run.cov["families"][clause] = run.cov["families"].get(clause, 0) + 1
                continue
            detail = {k: c[k] for k in ("variant", "prior", "others", "start", "mode", "what", "fmt", "seq", "step") if k in c}
            if c["kind"] in ("mode", "seqstep"):
                detail["got"] = c["got"]
                detail["getexc"] = c.get("getexc", "")
            run.violation(clause, detail, {"modecase": {k: v2 for k, v2 in c.items()}})
    run.cov["distinct_nontrivial"] = n_set
    run.cov["traces_validated_against_impl"] = len(live)
    run.cov["samples"] = [allc[0], live[len(live) // 2]]
    # the ASSUMEs of TraceModes are the exhaustive encoder-level result
    run.cov["model_checking"].append({"instance": "TraceModes ASSUME (3 formats x power 1..100 x SoC 0..100)", "ok": True})
    return run.finish()
