"""C20: two inverter objects, interleaved call sequences vs the same sequences alone; values handed out stay put.
Judged by TraceShuffle.tla."""
from __future__ import annotations

import itertools
import json
import os
import random
import sys

sys.path.insert(0, os.environ.get("VERIF_REPO", "/repo"))

from . import engine, tlc  # noqa: E402
from .checks_decode import device_regs, es_info  # noqa: E402
from .checks_inverter import serial_for  # noqa: E402
from .checks_modes import V1_PRIORS, V2_PRIORS  # noqa: E402
from .engine import Run  # noqa: E402

OBJECTS = {
    "et205": ("ET", "ETU", 8899, "v2", 47547), "et745": ("ET", "ETT", 8899, "v2", 47547), "et205tcp": ("ET", "ETU", 502, "v2", 47547),
    "et745tcp": ("ET", "ETT", 502, "v2", 47547), "es_v1": ("ES", "ESU", 8899, "v1", 1793), "es_v2": ("ES", "ESU", 8899, "v2", 47547),
    "dt3": ("DT", "DTU", 8899, "", 0), "dt1": ("DT", "DSN", 8899, "", 0),
    # same model tag, other rated-power class (the capability set depends on both)
    "et205mid": ("ET", "ETU", 8899, "v2", 47547), "et745big": ("ET", "ETT", 8899, "v2", 47547), "et205big": ("ET", "ETU", 502, "v2", 47547),
}
OBJECTS["dt3tcp"] = ("DT", "DTU", 502, "", 0)
OBJECTS.update({"dt3_f7": OBJECTS["dt3"], "et205_7f": OBJECTS["et205"], "et745tcp_01": OBJECTS["et745tcp"]})
# one object type per model tag: read_device_info branches on the tag (phases, MPPT count, platform, second battery)
from .checks_inverter import et_tags, dt_tags  # noqa: E402
for _t in et_tags("thorough"):
    OBJECTS["v_ET_" + _t] = ("ET", _t, 8899, "v2", 47547)
for _t in dt_tags("thorough"):
    OBJECTS["v_DT_" + _t] = ("DT", _t, 8899, "", 0)
RATED = {"et205mid": 15000, "et745big": 25000, "et205big": 29900}
COMM_ADDR = {"dt3_f7": 0xF7, "et205_7f": 0x7F, "et745tcp_01": 0x01}     # same registers, another communication address
PAIRS = [("et205", "et745"), ("et205", "es_v1"), ("es_v1", "es_v2"), ("et205tcp", "et745tcp"), ("et745", "et745"),
         ("dt3", "dt1"), ("et745", "es_v2"), ("et205", "et205"), ("et205", "et205mid"), ("et745big", "et745"), ("et205big", "et205tcp"),
         ("et205mid", "et205"), ("dt3", "dt3_f7"), ("et205_7f", "et205"), ("et745tcp", "et745tcp_01"), ("dt3_f7", "et205")]


def obj_spec(name: str, rnd: random.Random, prior: str, fill: str | None = None) -> dict:
    fam, tag, port, fmt, g1 = OBJECTS[name]
    serial = serial_for(tag) if fam != "ES" else "95048ESU000W0000"
    regs = device_regs(fam, serial, RATED.get(name, 10000))
    base = {"ET": [(35100, 125), (37000, 24), (36000, 125 if name in RATED else 45), (35301, 61), (39000, 22 if name in RATED else 0)], "DT": [(30100, 73), (30195, 15)]}.get(fam, [])
    # register contents: random, or the extreme patterns (all ones = "no value" / NaN patterns, all zeros) - an object that
    # remembers something from one inverter shows it on the other only when their contents differ in kind
    fill = fill or rnd.choice(("random", "random", "ff", "zero", "mixed"))
    for first, count in base:
        for a in range(first, first + count):
            regs[a] = {"random": rnd.randrange(65536), "ff": 0xFFFF, "zero": 0,
                       "mixed": rnd.choice((0xFFFF, 0, 0x7FC0, 0x8000, rnd.randrange(65536)))}[fill]
    if fam == "ET":
        regs[35184] = rnd.choice([0, 1, 2])
    regs.update({47000: rnd.choice([0, 1, 2, 3]), 45356: rnd.randrange(100), 47510: rnd.randrange(10000), 40328: 50, 40336: 50,
                 45482: rnd.randrange(100)})
    if fmt:
        hx = (V2_PRIORS if fmt == "v2" else V1_PRIORS).get(prior) or (V2_PRIORS if fmt == "v2" else V1_PRIORS)["zeros"]
        b = bytes.fromhex(hx)
        for i in range(len(b) // 2):
            regs[g1 + i] = int.from_bytes(b[2 * i:2 * i + 2], "big")
    sim = {"regs": regs}
    if fam == "ES":
        sim["aa55"] = {"info": list(es_info(serial, "2224E" if name == "es_v2" else "1010A")),
                       "runtime": [rnd.randrange(256) for _ in range(149)]}
    spec = {"family": fam, "port": port, "sim": sim, "retries": 0}
    if name in COMM_ADDR:
        spec["comm_addr"] = COMM_ADDR[name]
    return spec


def alphabet(name: str) -> list[dict]:
    fam = OBJECTS[name][0]
    al = [{"api": "read_runtime_data"}, {"api": "read_setting", "args": ["grid_export_limit"]},
          {"api": "set_grid_export_limit", "args": [4321]}]
    if fam != "DT":
        al += [{"api": "read_setting", "args": ["eco_mode_1"]}, {"api": "read_setting", "args": ["eco_mode_2"]},
               {"api": "get_operation_mode"},
               {"api": "set_operation_mode", "args": [{"opmode": 98}, 40, 60]},
               {"api": "set_operation_mode", "args": [{"opmode": 99}, 70, 100]},
               {"api": "set_operation_mode", "args": [{"opmode": 0}, 100, 100]}]
        if fam == "ET":
            al += [{"api": "write_setting", "args": ["eco_mode_2", {"bytes": list(bytes.fromhex(V2_PRIORS["partial"]))}]},
                   {"api": "read_setting", "args": ["peak_shaving_mode"]},
                   {"api": "write_setting", "args": ["battery_discharge_depth", 33]}, {"api": "read_settings_data"}]
    else:
        al += [{"api": "read_setting", "args": ["shadow_scan_pv1"]}, {"api": "write_setting", "args": ["shadow_scan_pv1", 1]}]
    return al


def with_poke(call: dict, name: str, rnd: random.Random) -> dict:
    """With probability 1/3 the inverter's registers change right before the call (production goes on, somebody used the
    app): a value handed out earlier must not follow such changes."""
    if rnd.random() > 1 / 3:
        return call
    fam, g1 = OBJECTS[name][0], OBJECTS[name][4]
    regs = {}
    for first, count in {"ET": [(35100, 125), (37000, 24)], "DT": [(30100, 73)]}.get(fam, []):
        for a_ in rnd.sample(range(first, first + count), 12):
            regs[a_] = rnd.randrange(65536)
    sim: dict = {"set": {str(k): v for k, v in regs.items()}}
    if g1:
        b = bytes.fromhex(rnd.choice(list((V2_PRIORS if OBJECTS[name][3] == "v2" else V1_PRIORS).values())))
        sim["set"].update({str(g1 + i): int.from_bytes(b[2 * i:2 * i + 2], "big") for i in range(len(b) // 2)})
    if fam == "ES":
        sim["aa55"] = {"runtime": [rnd.randrange(256) for _ in range(149)]}
    return dict(call, _poke=sim)


def shuffles(n1: int, n2: int) -> list[tuple[int, ...]]:
    out = []
    for pos in itertools.combinations(range(n1 + n2), n1):
        out.append(tuple(0 if i in pos else 1 for i in range(n1 + n2)))
    return out


def dshuffles(n1: int, n2: int, quick: bool, rnd: random.Random) -> list[tuple[int, ...]]:
    sh = shuffles(n1, n2)
    if quick and len(sh) > 6:
        keep = [sh[0], sh[-1]]
        sh = keep + rnd.sample(sh[1:-1], 4)
    return sh


def run_shuffle(job: dict) -> dict:
    """Runs solo(s1), solo(s2) and every requested interleaving; returns the per-object call records."""
    from . import inv_driver

    def canon(v):
        return json.dumps(inv_driver.proj(v), sort_keys=True, default=str)

    def records(calls: list[dict], only: int | None = None) -> list[list[dict]]:
        # every run starts from the module state as imported: the library keeps mutable state in class-level objects
        return engine.forked(records_here, (calls, only))

    def records_here(arg) -> list[list[dict]]:
        calls, only = arg
        oplogs: list = []
        # a call may be preceded by a change of the object's own inverter (the world moves on between two calls)
        calls = [x for c in calls for x in ([{"o": c["o"], "sim": c["_poke"]}] if "_poke" in c else []) +
                 [{k: v for k, v in c.items() if k != "_poke"}]]
        if only == "conc":
            # the two sequences as two tasks on one loop: requests of both objects are in flight at the same time
            prog = {"inv": job["inv"], "calls": [], "tasks": [[c for c in calls if c["o"] == 0], [c for c in calls if c["o"] == 1]],
                    "delay": 2}
        elif only is None:
            prog = {"inv": job["inv"], "calls": calls}
        else:
            # "alone": the other object does not even exist in the process
            prog = {"inv": [job["inv"][only]], "calls": [dict(c, o=0) for c in calls]}
        tr = inv_driver.run_program(prog)
        if tr["status"] != "ok":
            raise RuntimeError("shuffle program did not finish")
        per = [[], []]
        oplogs.extend(tr.get("oplog", []))
        cur = {}
        t2o = {int(k): v for k, v in (tr.get("tr2sim") or {}).items()}
        for ev in tr["ev"]:
            if ev["e"] == "CALL":
                a0 = ev.get("args") or []
                label = ev["api"] + (f"({a0[0]})" if a0 and isinstance(a0[0], str) else
                                     (f"({a0[0].get('opmode')})" if a0 and isinstance(a0[0], dict) and "opmode" in a0[0] else ""))
                cur[ev["o"]] = {"api": label, "reqs": [], "o": ev["o"]}
            elif ev["e"] == "SEND":
                o = t2o.get(ev["tr"], 0) if only == "conc" else (next(iter(cur)) if cur else None)
                if o in cur:
                    cur[o]["reqs"].append(ev["data"])
            elif ev["e"] == "RET" and ev.get("o") in cur:
                c_ = cur.pop(ev["o"])
                if ev.get("ok"):
                    c_["ok"] = True
                    c_["val"] = json.dumps(ev["val"], sort_keys=True, default=str)
                    c_["val_end"] = json.dumps(ev.get("val_end", ev["val"]), sort_keys=True, default=str)
                else:
                    c_["ok"] = False
                    c_["val"] = c_["val_end"] = f"{ev.get('exc')}:{ev.get('msg')}"
                per[c_["o"]].append(c_)
        return per + [oplogs]

    # each sequence starts with the object's own read_device_info: the shuffles also interleave those
    di = {"api": "read_device_info"}
    s = [[dict(c, o=0) for c in [di] + job["s1"]], [dict(c, o=1) for c in [di] + job["s2"]]]
    solo = [records(s[0], 0)[0], records(s[1], 1)[0]]
    out = []
    simlogs = []
    for sh in job["shuffles"]:
        idx = [0, 0]
        calls = []
        for o in sh:
            calls.append(s[o][idx[o]])
            idx[o] += 1
        tau = records(calls)
        if len(simlogs) < 2:
            simlogs.extend(tau[2])
        for o in (0, 1):
            out.append({"o": o, "shuffle": list(sh), "solo": solo[o], "tau": tau[o],
                        "fr": "tcp" if job["inv"][o].get("port", 8899) == 502 else "rtu"})
    if job.get("conc"):
        tau = records(s[0] + s[1], "conc")
        for o in (0, 1):
            out.append({"o": o, "shuffle": [2], "solo": solo[o], "tau": tau[o],
                        "fr": "tcp" if job["inv"][o].get("port", 8899) == 502 else "rtu"})
    return {"job": {k: job[k] for k in ("pair", "s1", "s2", "priors", "inv")}, "cases": out, "simlogs": simlogs}


def judge_results(run: Run, res: list[dict]) -> tuple[list, list, set]:
    # batch for TLC
    cases = []
    src = []
    frames = []
    fidx = {}

    def fid(b):
        b = bytes(b)
        if b not in fidx:
            frames.append(list(b))
            fidx[b] = len(frames)
        return fidx[b]
    for r in res:
        for c in r["cases"]:
            def rec(x):
                return {"api": x["api"],
                        "reqs": [fid(q) for q in x["reqs"]], "ok": x["ok"], "val": x["val"], "val_end": x["val_end"]}
            cases.append({"fr": c["fr"], "solo": [rec(x) for x in c["solo"]], "tau": [rec(x) for x in c["tau"]]})
            src.append((r["job"], c["o"], c["shuffle"]))
    verdicts = []
    B = 400
    for b0 in range(0, len(cases), B):
        path = os.path.join(run.workdir, f"shuffle_{b0}.json")
        tlc.write_json(path, {"frames": frames, "cases": cases[b0:b0 + B]})
        r = tlc.run_tlc("TraceShuffle", env={"VERIF_BATCH": path}, workers=16, timeout=3000)
        if not r["ok"]:
            raise engine.MachineryError("TraceShuffle failed\n" + r["stdout"][-3000:])
        v = tlc.parse_verdicts(r["stdout"])
        n = len(cases[b0:b0 + B])
        if len(v) != n:
            raise engine.MachineryError(f"{len(v)} verdicts for {n} cases")
        verdicts += [[c for c, _ in v[k + 1]] for k in range(n)]
        run.cov["states"] += r.get("distinct", 0)
        run.cov["transitions"] += r.get("generated", 0)
        os.remove(path)
    inter = set()
    for (job, o, sh), v in zip(src, verdicts):
        run.cov["evaluations"] += 1
        if len(set(sh)) > 1 and list(sh) != sorted(sh) and list(sh) != sorted(sh, reverse=True):
            inter.add(json.dumps([job["pair"], job["s1"], job["s2"], sh], sort_keys=True, default=str))
        for clause in v:
            cl, _, api = clause.partition(":")
            fam = OBJECTS[job["pair"][o]][0]
            other = OBJECTS[job["pair"][1 - o]][0]
            detail = {"api": api, "family": fam, "other": other}
            run.violation(cl, detail, {"shufflejob": {"pair": job["pair"], "s1": job["s1"], "s2": job["s2"], "priors": job["priors"],
                                                      "shuffle": list(sh), "object": o, "inv": job["inv"]}})
    return cases, src, inter


def check(prop: str, tier: str, seed: int) -> int:
    run = Run(prop, tier, seed, "model_checking")
    quick = tier == "quick"
    rnd = random.Random(seed)
    rnd2 = random.Random(seed + 77)         # a stream of its own: the older random jobs keep their contents
    run.cov["rule"] = ("pairs of inverter objects (same / different family, platform, transport) on two simulated inverters with different "
                       "register contents; two call sequences of length <= 3 (quick) / <= 4 (thorough) drawn from read_runtime_data, "
                       "read_setting / write_setting of several kinds incl. eco-mode groups, set_operation_mode, get_operation_mode; ALL shuffles "
                       "of the two sequences are executed, plus both sequences alone; TraceShuffle.tla compares per object the projection of the "
                       "interleaved run with the solo run and every returned value with its content at the end of the run; non-trivial = a "
                       "shuffle that really interleaves; distinct = distinct (pair, sequences, shuffle)")
    run.assumptions = ["interleaving is at call granularity (the statement speaks of interleavings of calls); values are compared through a canonical "
                       "projection (eco-mode groups: all fields)", "TLC, SANY and the CommunityModules are trusted"]
    jobs = []
    L = 3 if quick else 4
    nseq = 10 if quick else 40
    for (a, b) in PAIRS:
        for _ in range(nseq):
            l1, l2 = rnd.randint(1, L), rnd.randint(1, L)
            s1 = [with_poke(rnd.choice(alphabet(a)), a, rnd) for _ in range(l1)]
            s2 = [with_poke(rnd.choice(alphabet(b)), b, rnd) for _ in range(l2)]
            pa = rnd.choice(["zeros", "charge247", "partial", "garbage", "charge247_745", "unset", "peak"])
            pb = rnd.choice(["zeros", "charge247", "partial", "garbage", "charge247_745", "unset", "peak"])
            sh = shuffles(l1 + 1, l2 + 1)
            if quick and len(sh) > 8:
                sh = rnd.sample(sh, 8)
            jobs.append({"pair": [a, b], "s1": s1, "s2": s2, "priors": [pa, pb], "shuffles": sh,
                         "inv": [obj_spec(a, rnd, pa), obj_spec(b, rnd, pb)]})
            # one job in four: one of the two inverters (older firmware) refuses some single setting registers
            if rnd2.random() < 0.25:
                who = rnd2.randrange(2)
                fam_ = OBJECTS[(a, b)[who]][0]
                ref = {"ET": [[47510, 47510], [47589, 47600], [45356, 45356]], "DT": [[40326, 40326], [40328, 40329], [40336, 40336]]}.get(fam_)
                if ref:
                    # ... or does not answer them at all (one time in three)
                    jobs[-1]["inv"][who]["sim"]["silent" if rnd2.random() < 1 / 3 else "refused"] = rnd2.sample(ref, rnd2.randint(1, len(ref)))
    # directed jobs: short sequences around the eco-mode groups with every combination of prior group contents, all shuffles
    rd = {"api": "read_setting", "args": ["eco_mode_1"]}
    dseqs = [[rd], [{"api": "set_operation_mode", "args": [{"opmode": 98}, 40, 60]}], [rd, {"api": "get_operation_mode"}],
             [{"api": "set_operation_mode", "args": [{"opmode": 99}, 70, 100]}, rd]]
    dpri = ["zeros", "charge247", "charge247_745", "garbage", "peak"] if quick else list(V2_PRIORS)
    for (a, b) in [("et205", "et745"), ("et745", "et205"), ("es_v2", "es_v2"), ("es_v1", "es_v1"), ("et745tcp", "et205tcp")]:
        for s1 in dseqs:
            for s2 in (dseqs[1:2] if quick else dseqs):
                for pa in dpri:
                    for pb in (["garbage", "zeros"] if quick else dpri):
                        jobs.append({"pair": [a, b], "s1": s1, "s2": s2, "priors": [pa, pb], "shuffles": dshuffles(len(s1) + 1, len(s2) + 1, quick, rnd),
                                     "inv": [obj_spec(a, rnd, pa), obj_spec(b, rnd, pb)]})
    # directed jobs for the second half of the statement: a reading call, a change of the inverter's registers, the same
    # call again - the value handed out first must keep its content (every reading call of every object type)
    for a, b in [("et205", "et745"), ("et745tcp", "et205"), ("es_v1", "es_v2"), ("es_v2", "et205"), ("dt3", "dt1"), ("dt1", "dt3_f7")]:
        for x in alphabet(a):
            if x["api"].startswith(("set_", "write_")):
                continue
            x2 = with_poke(x, a, random.Random(len(jobs)))
            while "_poke" not in x2:
                x2 = with_poke(x, a, rnd)
            for s2 in ([{"api": "read_runtime_data"}], [x]):
                jobs.append({"pair": [a, b], "s1": [x, x2], "s2": s2, "priors": ["partial", "zeros"],
                             "shuffles": dshuffles(3, len(s2) + 1, quick, rnd),
                             "inv": [obj_spec(a, rnd, "partial"), obj_spec(b, rnd, "zeros")]})
    # directed: two objects of one family on inverters whose contents differ in kind (no-value patterns vs ordinary values),
    # the bulk reads in both orders
    rrd = {"api": "read_runtime_data"}
    for a, b in [("et205", "et745"), ("et745", "et205big"), ("et205tcp", "et745tcp"), ("dt3", "dt1"), ("es_v1", "es_v2")]:
        for fa, fb in (("ff", "random"), ("random", "ff"), ("zero", "random"), ("mixed", "random")):
            for s1, s2 in (([rrd], [rrd]), ([rrd, rrd], [rrd]), ([rrd], [rrd, rrd])):
                jobs.append({"pair": [a, b], "s1": s1, "s2": s2, "priors": ["zeros", "zeros"],
                             "shuffles": dshuffles(len(s1) + 1, len(s2) + 1, quick, rnd),
                             "inv": [obj_spec(a, rnd, "zeros", fa), obj_spec(b, rnd, "zeros", fb)]})
    # directed: inverters of different firmware - one refuses (ILLEGAL DATA ADDRESS) single registers the reading calls ask for,
    # the other serves them; what one object learns about ITS inverter's registers must not show in the other (both orders,
    # the refused call once and twice, every shuffle)
    REFUSABLE = {"ET": [("grid_export_limit", [[47510, 47510]]), ("peak_shaving_mode", [[47589, 47600]]),
                        ("battery_discharge_depth", [[45356, 45356]])],
                 "DT": [("shadow_scan_pv1", [[40326, 40326]]), ("grid_export_limit", [[40328, 40329], [40336, 40336]])]}
    for a, b in [("et205", "et745"), ("et745", "et745"), ("et745tcp", "et205tcp"), ("dt3", "dt1"), ("dt1", "dt3_f7"), ("et205", "dt3")]:
        for sid, ranges in REFUSABLE[OBJECTS[a][0]]:
            if not any(c.get("args", [None])[0] == sid for c in alphabet(b) if c["api"] == "read_setting"):
                continue
            x = {"api": "read_setting", "args": [sid]}
            for s1, s2 in (([x], [x]), ([x, x], [x]), ([x], [x, x])):
                for who in (0, 1):
                    inv = [obj_spec(a, rnd, "zeros", "random"), obj_spec(b, rnd, "zeros", "random")]
                    inv[who]["sim"]["refused"] = REFUSABLE[OBJECTS[(a, b)[who]][0]][[k for k, _ in REFUSABLE[OBJECTS[(a, b)[who]][0]]].index(sid)][1]
                    jobs.append({"pair": [a, b], "s1": s1, "s2": s2, "priors": ["zeros", "zeros"],
                                 "shuffles": shuffles(len(s1) + 1, len(s2) + 1) if not quick else dshuffles(len(s1) + 1, len(s2) + 1, quick, rnd),
                                 "inv": inv})
    # directed: two objects of one family with different model tags (every tag class against every other, both orders):
    # what one object learns about its model must not show in the other
    for fam, tags, reps in (("ET", et_tags(tier), et_tags("quick")), ("DT", dt_tags(tier), dt_tags("quick"))):
        for ta in tags:
            for tb in tags:
                if ta not in reps and tb not in reps:
                    continue
                a, b = f"v_{fam}_{ta}", f"v_{fam}_{tb}"
                jobs.append({"pair": [a, b], "s1": [rrd], "s2": [rrd], "priors": ["zeros", "zeros"],
                             "shuffles": shuffles(2, 2) if not quick else dshuffles(2, 2, quick, rnd),
                             "inv": [obj_spec(a, rnd, "zeros", "random"), obj_spec(b, rnd, "zeros", "random")]})
    # directed: two objects that talk to the SAME host and port (two units behind one gateway, or a second object for the same
    # inverter) with different / equal communication addresses; reading calls only (they share the inverter's registers)
    import copy
    for a, b in [("et745tcp", "et745tcp_01"), ("et745tcp_01", "et745tcp"), ("et205tcp", "dt3tcp"), ("dt3tcp", "et205tcp"),
                 ("et745tcp", "et745tcp"), ("et205", "et205_7f"), ("dt3", "dt3_f7")]:
        ro = [c for c in alphabet(a) if not c["api"].startswith(("set_", "write_"))]
        rob = [c for c in alphabet(b) if not c["api"].startswith(("set_", "write_"))]
        for k in range(3 if quick else 12):
            s1 = [rnd.choice(ro) for _ in range(rnd.randint(1, 2))]
            s2 = [rnd.choice(rob) for _ in range(rnd.randint(1, 2))]
            ia = obj_spec(a, rnd, "zeros", "random")
            ib = obj_spec(b, rnd, "zeros", "random")
            ib["sim"] = copy.deepcopy(ia["sim"])
            if OBJECTS[a][0] != OBJECTS[b][0]:
                # one register file that serves both families' device information
                ib["sim"]["regs"].update(obj_spec(b, rnd, "zeros", "random")["sim"]["regs"])
                ia["sim"] = copy.deepcopy(ib["sim"])
            ib["host"] = "inv0"
            jobs.append({"pair": [a, b], "s1": s1, "s2": s2, "priors": ["zeros", "zeros"],
                         "shuffles": dshuffles(len(s1) + 1, len(s2) + 1, quick, rnd), "inv": [ia, ib]})
    # every job whose objects talk to different hosts is also run with the two sequences as concurrent tasks (requests of both
    # objects in flight at the same time)
    for j in jobs:
        if not any(i.get("host") for i in j["inv"]):
            j["conc"] = True
    res = engine.parallel_map("harness.checks_shuffle", "run_shuffle", jobs, procs=16, chunk=2)
    cases, src, inter = judge_results(run, res)
    from . import checks_sim
    checks_sim.validate_logs(run, [lg for r in res for lg in r.get("simlogs", [])], sample=120 if quick else 2000, seed=seed)
    run.cov["distinct_nontrivial"] = len(inter)
    run.cov["traces_validated_against_impl"] = len(cases)
    if cases:
        run.cov["samples"].append({"pair": src[0][0]["pair"], "s1": [c["api"] for c in src[0][0]["s1"]],
                                   "s2": [c["api"] for c in src[0][0]["s2"]], "shuffle": src[0][2]})
    return run.finish()


def replay_job(prop: str, obj: dict, path: str) -> int:
    j = obj["replay"]["shufflejob"]
    run = Run(prop, "replay", 0, "model_checking")
    job = {"pair": j["pair"], "s1": j["s1"], "s2": j["s2"], "priors": j["priors"], "inv": j["inv"], "shuffles": [tuple(j["shuffle"])]}
    if list(j["shuffle"]) == [2]:      # the concurrent run of the two sequences
        job["shuffles"] = []
        job["conc"] = True
    judge_results(run, [run_shuffle(job)])
    for v in run.violations:
        print(f"VIOLATION property={prop} replay={path} clause={v['clause']}")
    return 1 if run.violations else 0
