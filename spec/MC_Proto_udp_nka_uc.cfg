SPECIFICATION Spec
CHECK_DEADLOCK FALSE
CONSTANTS
  Kind = "udp"
  KeepAlive = FALSE
  Retries = 1
  T = 4
  CT = 20
  NCallers = 1
  NReq = 2
  Faults <- FaultsCancel
  ConnOuts = {"ok"}
  MaxConnFail = 1
  Offsets = {0}
  Gaps = {0}
  Strict = TRUE
  Horizon = 400
  Fx <- FxAll
  Assume = FALSE
  CancelAts = {2, 5, 6}
INVARIANT NoViolation
INVARIANT NoHang
INVARIANT TimeBounded
INVARIANT OneTransport
INVARIANT LockSane
INVARIANT OnePending
INVARIANT RetryBounded
INVARIANT NoUnhandled
