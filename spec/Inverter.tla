------------------------------ MODULE Inverter ------------------------------
(***************************************************************************)
(* Block-level design model of the capability negotiation of the ET and DT *)
(* inverter classes (et.py / dt.py): which register blocks are requested,  *)
(* how ILLEGAL DATA ADDRESS answers switch capabilities off, which blocks  *)
(* sensors() lists afterwards, and the id map read_sensor() resolves       *)
(* against.                                                                *)
(*                                                                         *)
(* A sensor table is abstracted to the block it belongs to; the meter      *)
(* block has three tiers (45 / 58 / 125 registers) and its listing a `cut` *)
(* (all sensors / those below 36058 / those below 36045).  The sensor      *)
(* level (addresses, windows, values) is judged on real executions by      *)
(* TraceDecode.tla; this module explores ALL configurations and histories  *)
(* of the negotiation logic.                                               *)
(*                                                                         *)
(* Environment: the model tag predicates and rated-power class of the      *)
(* inverter, the set of blocks it refuses, whether a battery is present    *)
(* (re-read from the running data on every call).                          *)
(* Fx: repairs applied ("M": the id map follows the listing).              *)
(***************************************************************************)
EXTENDS Integers, Sequences, FiniteSets, TLC

CONSTANTS Family,        \* "ET" | "DT"
          MaxCalls,      \* bound on the number of public calls in a history
          Fx

ETBlocks == {"battery", "battery2", "meter_ext2", "meter_ext", "mppt", "eco_v2", "peak"}
DTBlocks == {"meter"}
Refusable == IF Family = "ET" THEN ETBlocks ELSE DTBlocks

VARIABLES cfg,      \* [four, single, bat2, p745, rated] (ET) -- fixed; DT: [single, mppt3]
          refused,  \* blocks answered with ILLEGAL DATA ADDRESS -- fixed
          fl,       \* capability flags and listing cuts
          idmap,    \* [set, b]: the blocks cached by the first read_sensor()
          ncalls,
          last      \* what the last public call did: [api, reqs, ok, keys]
vars == <<cfg, refused, fl, idmap, ncalls, last>>

NoCall == [api |-> "none", reqs |-> <<>>, ok |-> TRUE, keys |-> {}, fails |-> 0]

InitFlags ==
    IF Family = "ET"
    THEN [info |-> FALSE, battery |-> TRUE, battery2 |-> FALSE, ext |-> FALSE, ext2 |-> FALSE, mppt |-> FALSE,
          eco2 |-> TRUE, peak |-> TRUE, cut |-> "all", meter |-> TRUE]
    ELSE [info |-> FALSE, battery |-> FALSE, battery2 |-> FALSE, ext |-> FALSE, ext2 |-> FALSE, mppt |-> FALSE,
          eco2 |-> FALSE, peak |-> FALSE, cut |-> "all", meter |-> TRUE]

Init == /\ cfg \in [four : BOOLEAN, single : BOOLEAN, bat2 : BOOLEAN, p745 : BOOLEAN, rated : {"lo", "mid", "hi"}]
        /\ (Family = "DT" => cfg.bat2 = FALSE /\ cfg.p745 = FALSE /\ cfg.rated = "lo")
        /\ refused \in SUBSET Refusable
        /\ fl = InitFlags
        /\ idmap = [set |-> FALSE, b |-> {}]
        /\ ncalls = 0
        /\ last = NoCall

\* what sensors() lists, as blocks (the meter block with its cut)
Listing(f) ==
    IF Family = "ET"
    THEN {"running", "meter:" \o f.cut} \cup (IF f.battery THEN {"battery"} ELSE {})
         \cup (IF f.battery2 THEN {"battery2"} ELSE {}) \cup (IF f.mppt THEN {"mppt"} ELSE {})
    ELSE {"running"} \cup (IF f.meter THEN {"meter"} ELSE {})

(***************************************************************************)
(* read_device_info (ET): model filters and the two settings probes        *)
(***************************************************************************)
DeviceInfoET ==
    LET big == cfg.p745 \/ cfg.rated \in {"mid", "hi"} IN
    [fl EXCEPT !.info = TRUE,
               !.battery2 = cfg.bat2 \/ cfg.rated = "hi",
               !.mppt = IF big THEN TRUE ELSE @, !.ext = IF big THEN TRUE ELSE @, !.ext2 = IF big THEN TRUE ELSE @,
               !.cut = IF big THEN @ ELSE "lt36045",
               !.eco2 = IF "eco_v2" \in refused THEN FALSE ELSE @,
               !.peak = IF "peak" \in refused THEN FALSE ELSE @]

ReadDeviceInfo ==
    /\ ncalls < MaxCalls
    /\ fl' = IF Family = "ET" THEN DeviceInfoET ELSE [fl EXCEPT !.info = TRUE]
    /\ last' = [NoCall EXCEPT !.api = "info",
                              !.reqs = IF Family = "ET" THEN <<"info", "eco_v2", "peak">> ELSE <<"info", "meter_info">>]
    /\ ncalls' = ncalls + 1
    /\ UNCHANGED <<cfg, refused, idmap>>

(***************************************************************************)
(* read_runtime_data.  R = [f, reqs, keys, ok] threaded through the blocks  *)
(***************************************************************************)
Ok(b) == b \notin refused
MinCut(a, b) == IF "lt36045" \in {a, b} THEN "lt36045" ELSE IF "lt36058" \in {a, b} THEN "lt36058" ELSE "all"

StepBattery(R) ==
    IF ~R.f.battery THEN R
    ELSE IF Ok("battery") THEN [R EXCEPT !.reqs = Append(@, "battery"), !.keys = @ \cup {"battery"}]
    ELSE [R EXCEPT !.reqs = Append(@, "battery"), !.f.battery = FALSE]
StepBattery2(R) ==
    IF ~R.f.battery2 THEN R
    ELSE IF Ok("battery2") THEN [R EXCEPT !.reqs = Append(@, "battery2"), !.keys = @ \cup {"battery2"}]
    ELSE [R EXCEPT !.reqs = Append(@, "battery2"), !.f.battery2 = FALSE]
\* the 125-register read is refused when the inverter lacks the registers above 36057, the 58-register read when it
\* lacks those above 36044
\* (a read is refused when any register of its window is missing: the 125-register read needs both ranges)
Ok125 == Ok("meter_ext2") /\ Ok("meter_ext")
StepMeter(R) ==
    IF R.f.ext2 THEN
        IF Ok125 THEN [R EXCEPT !.reqs = Append(@, "meter125"), !.keys = @ \cup {"meter:" \o R.f.cut}]
        ELSE LET c2 == MinCut(R.f.cut, "lt36058")
                 R1 == [R EXCEPT !.reqs = @ \o <<"meter125", "meter58">>, !.f.ext2 = FALSE, !.f.cut = c2]
             IN IF Ok("meter_ext") THEN [R1 EXCEPT !.keys = @ \cup {"meter:" \o c2}]
                ELSE [R1 EXCEPT !.ok = FALSE]                                  \* the rejection escapes the call
    ELSE IF R.f.ext THEN
        IF Ok("meter_ext") THEN [R EXCEPT !.reqs = Append(@, "meter58"), !.keys = @ \cup {"meter:" \o R.f.cut}]
        ELSE LET c2 == "lt36045" IN
             [R EXCEPT !.reqs = @ \o <<"meter58", "meter45">>, !.f.ext = FALSE, !.f.cut = c2, !.keys = @ \cup {"meter:" \o c2}]
    ELSE [R EXCEPT !.reqs = Append(@, "meter45"), !.keys = @ \cup {"meter:" \o R.f.cut}]
StepMppt(R) ==
    IF ~R.f.mppt THEN R
    ELSE IF Ok("mppt") THEN [R EXCEPT !.reqs = Append(@, "mppt"), !.keys = @ \cup {"mppt"}]
    ELSE [R EXCEPT !.reqs = Append(@, "mppt"), !.f.mppt = FALSE]

RuntimeET(bat) ==
    LET R0 == [f |-> [fl EXCEPT !.battery = bat], reqs |-> <<"running">>, keys |-> {"running"}, ok |-> TRUE]
        R1 == StepBattery2(StepBattery(R0))
        R2 == StepMeter(R1)
    IN IF R2.ok THEN StepMppt(R2) ELSE R2

RuntimeDT ==
    LET R0 == [f |-> fl, reqs |-> <<"running">>, keys |-> {"running"}, ok |-> TRUE] IN
    IF ~fl.meter THEN R0
    ELSE IF Ok("meter") THEN [R0 EXCEPT !.reqs = Append(@, "meter"), !.keys = @ \cup {"meter"}]
    ELSE [R0 EXCEPT !.reqs = Append(@, "meter"), !.f.meter = FALSE]

ReadRuntimeWith(bat) ==
    /\ ncalls < MaxCalls
    /\ fl.info
    /\ LET R == IF Family = "ET" THEN RuntimeET(bat) ELSE RuntimeDT IN
         /\ fl' = R.f
         /\ last' = [api |-> "runtime", reqs |-> R.reqs, ok |-> R.ok, keys |-> R.keys,
                     fails |-> IF R.ok THEN 0 ELSE (IF last.api = "runtime" THEN last.fails ELSE 0) + 1]
    /\ ncalls' = ncalls + 1
    /\ UNCHANGED <<cfg, refused, idmap>>

ReadRuntime == \E bat \in (IF Family = "ET" THEN BOOLEAN ELSE {TRUE}) : ReadRuntimeWith(bat)

(***************************************************************************)
(* read_sensor: resolves ids against a map built on first use              *)
(***************************************************************************)
ReadSensor ==
    /\ ncalls < MaxCalls
    /\ fl.info
    /\ idmap' = IF ~idmap.set \/ "M" \in Fx THEN [set |-> TRUE, b |-> Listing(fl)] ELSE idmap
    /\ last' = [NoCall EXCEPT !.api = "sensor"]
    /\ ncalls' = ncalls + 1
    /\ UNCHANGED <<cfg, refused, fl>>

Next == ReadDeviceInfo \/ ReadRuntime \/ ReadSensor
Spec == Init /\ [][Next]_vars

(***************************************************************************)
(* properties                                                              *)
(***************************************************************************)
\* C15: whenever read_runtime_data returns, its keys are exactly what sensors() lists right after
KeysEqSensors == (last.api = "runtime" /\ last.ok) => last.keys = Listing(fl)
\* C15: it succeeds no later than the second call
SecondCallSucceeds == last.api = "runtime" => last.fails <= 1
\* C14 at block level: the meter tier fetched covers the cut that is listed
MeterTier(reqs) == IF \E i \in 1..Len(reqs) : reqs[i] = "meter45" THEN "lt36045"
                   ELSE IF \E i \in 1..Len(reqs) : reqs[i] = "meter58" THEN "lt36058" ELSE "all"
MeterWindowCoversCut ==
    (Family = "ET" /\ last.api = "runtime" /\ last.ok) =>
        LET t == MeterTier(last.reqs) IN MinCut(t, fl.cut) = fl.cut
\* C16: every id sensors() lists resolves in read_sensor
ListedResolvable == (last.api = "sensor") => Listing(fl) \subseteq idmap.b
\* refused blocks disappear from the listing, supported ones are all present (after a successful call)
RefusedDisappear ==
    (Family = "ET" /\ last.api = "runtime" /\ last.ok) =>
        /\ ("battery" \in refused => "battery" \notin Listing(fl))
        /\ ("battery2" \in refused => "battery2" \notin Listing(fl))
        /\ ("mppt" \in refused => "mppt" \notin Listing(fl))
=============================================================================
