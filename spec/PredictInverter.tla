-------------------------- MODULE PredictInverter --------------------------
(* Spec -> code: for every configuration executed on the real classes, the  *)
(* design model predicts the blocks requested by each read_runtime_data     *)
(* call, whether the call succeeds, and the blocks listed afterwards.       *)
EXTENDS Inverter, ModelTags, Json, IOUtils

Cfgs == JsonDeserialize(IOEnv.VERIF_CFGS)
VARIABLES pid, step
pvars == <<vars, pid, step>>

ToSet(s) == {s[i] : i \in 1..Len(s)}
PInit == /\ pid \in 1..Len(Cfgs)
         /\ step = 0
         \* the capability class of a known tag is the specification's (ModelTags.tla); for a tag it does not know the
         \* predicates the implementation reports are taken over
         /\ cfg = LET c == Cfgs[pid] p == IF Known(c.tag) THEN Pred(c.tag) ELSE c IN
                   [four |-> p.four, single |-> p.single, bat2 |-> p.bat2, p745 |-> p.p745, rated |-> c.rated]
         /\ refused = ToSet(Cfgs[pid].refused)
         /\ fl = InitFlags
         /\ idmap = [set |-> FALSE, b |-> {}]
         /\ ncalls = 0
         /\ last = NoCall
PNext == /\ step <= Len(Cfgs[pid].bats)
         /\ IF step = 0 THEN ReadDeviceInfo ELSE ReadRuntimeWith(Cfgs[pid].bats[step])
         /\ step' = step + 1
         /\ UNCHANGED pid
         /\ (step > 0 => PrintT("PRED|" \o ToString(pid) \o "|" \o ToString(step) \o "|" \o ToString(last'.reqs) \o "|"
                                \o ToString(last'.ok) \o "|" \o ToString(Listing(fl'))))
PSpec == PInit /\ [][PNext]_pvars
=============================================================================
