SPECIFICATION GSpec
CHECK_DEADLOCK FALSE
CONSTANTS
  Kind = "udp"
  KeepAlive = TRUE
  Retries = 4
  T = 4
  CT = 20
  NCallers = 1
  NReq = 3
  Faults <- FaultsFull
  ConnOuts = {"ok", "unreach"}
  MaxConnFail = 2
  Offsets = {0}
  Gaps = {0, 1, 2, 5}
  Strict = TRUE
  Horizon = 4000
  Fx <- FxAll
  Assume = FALSE
  CancelAts = {}
INVARIANT GNoViolation
