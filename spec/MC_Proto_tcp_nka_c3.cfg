SPECIFICATION Spec
CHECK_DEADLOCK FALSE
CONSTANTS
  Kind = "tcp"
  KeepAlive = FALSE
  Retries = 1
  T = 4
  CT = 20
  NCallers = 3
  NReq = 1
  Faults <- FaultsAssume
  ConnOuts = {"ok"}
  MaxConnFail = 0
  Offsets = {0, 1, 4}
  Gaps = {0}
  Strict = TRUE
  Horizon = 400
  Fx <- FxAll
  Assume = TRUE
  CancelAts = {}
INVARIANT NoViolation
INVARIANT NoHang
INVARIANT TimeBounded
INVARIANT OneTransport
INVARIANT LockSane
INVARIANT OnePending
INVARIANT RetryBounded
INVARIANT NoUnhandled
