SPECIFICATION PSpec
CHECK_DEADLOCK FALSE
CONSTANTS
  Family = "DT"
  MaxCalls = 100
  Fx = {}
