------------------------------ MODULE Protocol ------------------------------
(***************************************************************************)
(* Design model of goodwe's transport layer: UdpInverterProtocol /         *)
(* TcpInverterProtocol (protocol.py) together with ProtocolCommand.execute *)
(* and the part of asyncio it runs on.                                     *)
(*                                                                         *)
(* Shape.  asyncio is cooperative, so the grain of atomicity is one        *)
(* callback of the event loop: a task step between two awaits, a timer     *)
(* callback (_timeout_mechanism), an I/O callback (datagram_received /     *)
(* data_received / error_received), connection_made / connection_lost.     *)
(* The event loop itself is modelled as the stock selector loop: a FIFO    *)
(* `ready` queue; one iteration runs the callbacks that were queued when   *)
(* it began (`batch`); between iterations select() hands over due I/O (at  *)
(* most one read event per transport when Strict) and then the due timers; *)
(* time advances only when nothing is ready.                               *)
(*                                                                         *)
(* The variables of `s` mirror protocol.py:                                *)
(*   retry   _retry          cur    owner of self.response_future          *)
(*   res[c]  state of the future caller c awaits                           *)
(*   timer   self._timer     timers the armed (not cancelled) handles      *)
(*   pb      _partial_data   tr     self._transport     open  usable sockets*)
(*   held,lq,lw  asyncio.Lock (FIFO, hand-off through the ready queue)     *)
(* The network, the peer and the callers' timing are the environment:      *)
(* every transmission draws one fault from Faults, every connection        *)
(* attempt one outcome from ConnOuts, callers start at offsets from        *)
(* Offsets and pause Gaps between requests.                                *)
(*                                                                         *)
(* Fx is the set of repairs applied ("A".."E", see DESIGN.md section 7);   *)
(* Fx = {} is the code as found, which lets TLC reproduce the defects.     *)
(*                                                                         *)
(* The properties are not restated here: every observable event is fed to  *)
(* ProtoMonitor (the same clauses that judge recorded executions of the    *)
(* real code), instantiated on abstract frames, and `viol = {}` is the     *)
(* invariant.                                                              *)
(***************************************************************************)
EXTENDS Integers, Sequences, FiniteSets, TLC

CONSTANTS Kind,          \* "udp" | "tcp"
          KeepAlive,     \* BOOLEAN
          Retries, T, CT,
          NCallers, NReq,
          Faults,        \* set of fault records [k, d, d2, x]
          ConnOuts,      \* subset of {"ok", "refused", "unreach", "hang"}
          MaxConnFail,   \* bound on the number of failing connection attempts
          Offsets, Gaps,
          Strict,        \* selector-faithful scheduling
          Horizon,
          Fx,            \* repairs applied
          Assume,        \* the peer assumption of C06 holds for Faults (judge C06 clauses)
          CancelAts      \* ticks after its CALL at which the user of the library may cancel the task that runs a
                         \* request (task.cancel(), asyncio.wait_for / timeout around the call); {} = never

Callers == 1..NCallers
NoF == [what |-> "none", of |-> 0, x |-> 0]
Req(c, k) == (c - 1) * NReq + k

(***************************************************************************)
(* abstract frame interface of the monitor                                 *)
(***************************************************************************)
AMust(cmd, f) ==
    CASE f.what = "ans"  -> [must |-> "accept", code |-> 0]
      [] f.what = "exc"  -> [must |-> "rejected", code |-> f.x]
      [] f.what = "head" -> [must |-> "partial", code |-> 0]
      [] OTHER -> [must |-> "nonaccept", code |-> 0]
AReqMatch(cmd, f) == f.what = "req" /\ f.of = cmd
ATxId(cmd, f) == IF Kind = "tcp" THEN f.x ELSE -1
\* the exact remainder completes its own head; without a checksum (tcp) any piece of the
\* right length does
\* (the wire protocols carry no correlation id and the answers the peer gives to different requests of a behaviour
\* differ only behind the split point: the exact remainder of ANOTHER answer, arriving late, completes a head to that
\* other answer, checksum and all - g.of need not be h.of.  Found as conformance drift in deep simulated behaviours.)
ACompletes(cmd, h, g) ==
    /\ h.what = "head"
    /\ \/ g.what = "tail"
       \/ Kind = "tcp" /\ g.what \in {"tail", "tailc"}
AIsData(d, fs) == d.what = "data" /\ d.x = fs
AWF(cmd, d) == /\ d.what = "data"
               /\ \/ Len(d.x) = 1 /\ d.x[1].what = "ans"
                  \/ Len(d.x) = 2 /\ ACompletes(cmd, d.x[1], d.x[2])
APayloadOk(cmd, d, p) == TRUE
AOwnTag(cmd, d) == d.what = "data" /\ \A k \in 1..Len(d.x) : d.x[k].of = cmd /\ d.x[k].what # "tailc"
AReasonOk(code, msg) == code = msg

Mon == INSTANCE ProtoMonitor WITH
         Must <- AMust, ReqMatch <- AReqMatch, TxId <- ATxId, Completes <- ACompletes, IsData <- AIsData,
         WF <- AWF, PayloadOk <- APayloadOk, OwnTag <- AOwnTag, ReasonOk <- AReasonOk, NoFrame <- NoF

Meta == [kind |-> Kind, ka |-> KeepAlive, retries |-> Retries, T |-> T, CT |-> CT, ncallers |-> NCallers,
         assume |-> Assume, cmds |-> [r \in 1..(NCallers * NReq) |-> r]]

VARIABLES now, ready, batch, net, s, mon, viol
vars == <<now, ready, batch, net, s, mon, viol>>

Pending == [st |-> "pending", v |-> NoF]

InitS(off) ==
    [pc    |-> [c \in Callers |-> "idle"],
     idx   |-> [c \in Callers |-> 0],
     res   |-> [c \in Callers |-> [st |-> "none", v |-> NoF]],
     conn  |-> [c \in Callers |-> [o |-> "none", tr |-> 0]],
     rtx   |-> [c \in Callers |-> 0],
     retry |-> 0, cur |-> 0,
     held  |-> FALSE, lq |-> <<>>, lw |-> FALSE,
     timer |-> 0, timers |-> {[id |-> c, at |-> off[c], k |-> "sleep", c |-> c] : c \in Callers},
     dead  |-> {}, nt |-> NCallers + 1,
     pb    |-> NoF,
     tr    |-> 0, open |-> {}, trn |-> 1,
     nseq  |-> 1, ntx |-> 1, cfails |-> 0, unh |-> FALSE]

Init == /\ now = 0
        /\ ready = <<>>
        /\ batch = 0
        /\ net = {}
        /\ \E off \in [Callers -> Offsets] :
             /\ off[1] = 0
             /\ \A c \in Callers : c > 1 => off[c - 1] <= off[c]    \* symmetry: callers are interchangeable
             /\ s = InitS(off)
        /\ mon = Mon!InitM(NCallers * NReq)
        /\ viol = {}

(***************************************************************************)
(* A step is computed on X = [s, q, net, ev, uf, uo, ug]: the new state,   *)
(* the callbacks queued by call_soon (in order), the deliveries put on the *)
(* network, the observable events (in order), and which environment picks  *)
(* were consumed.                                                          *)
(***************************************************************************)
X0(st) == [s |-> st, q |-> <<>>, net |-> {}, ev |-> <<>>, uf |-> FALSE, uo |-> FALSE, ug |-> FALSE, uk |-> FALSE]

Ev(e) == [e |-> e, t |-> now, r |-> 0, tr |-> 0, f |-> NoF, pf |-> NoF, out |-> "", fam |-> TRUE,
          msg |-> 0, why |-> ""]
Emit(X, e) == [X EXCEPT !.ev = Append(@, e)]
CallSoon(X, cb) == [X EXCEPT !.q = Append(@, cb)]

Wake(c) == [k |-> "wake", c |-> c, tr |-> 0, f |-> NoF, id |-> 0]
CbTm(id) == [k |-> "tm", c |-> 0, tr |-> 0, f |-> NoF, id |-> id]
CbLost(tr) == [k |-> "lost", c |-> 0, tr |-> tr, f |-> NoF, id |-> 0]
CbMade(tr) == [k |-> "cmade", c |-> 0, tr |-> tr, f |-> NoF, id |-> 0]
CbWait(c) == [k |-> "cwait", c |-> c, tr |-> 0, f |-> NoF, id |-> 0]
CbIo(tr, f) == [k |-> "io", c |-> 0, tr |-> tr, f |-> f, id |-> 0]

\* TimerHandle.cancel(): never runs, even if it already sits in the ready queue
CancelTimer(X, id) ==
    IF id = 0 THEN X
    ELSE IF \E h \in X.s.timers : h.id = id
         THEN [X EXCEPT !.s.timers = {h \in @ : h.id # id}]
         ELSE [X EXCEPT !.s.dead = @ \cup {id}]

Arm(X, k, c, at) ==
    LET id == X.s.nt IN
    [X EXCEPT !.s.timers = @ \cup {[id |-> id, at |-> at, k |-> k, c |-> c]}, !.s.nt = id + 1]

\* future.cancel() / set_result / set_exception on the future caller c awaits
Resolve(X, c, st, v) ==
    CallSoon([X EXCEPT !.s.res[c] = [st |-> st, v |-> v]], Wake(c))

FutPending(st) == st.cur # 0 /\ st.res[st.cur].st = "pending"

\* InverterProtocol._close_transport
CloseTransport(X) ==
    LET st == X.s
        X1 == IF st.tr # 0 /\ st.tr \in st.open
              THEN CallSoon(Emit([X EXCEPT !.s.open = @ \ {st.tr}], [Ev("CLOSE") EXCEPT !.tr = st.tr]), CbLost(st.tr))
              ELSE X
        X2 == [X1 EXCEPT !.s.tr = 0]
        X3 == IF "C" \in Fx /\ X2.s.timer # 0 THEN [CancelTimer(X2, X2.s.timer) EXCEPT !.s.timer = 0] ELSE X2
    IN IF FutPending(X3.s) THEN Resolve(X3, X3.s.cur, "cancelled", NoF) ELSE X3

\* Lock.release() as written in the finally blocks: only if locked
Release(X) ==
    IF ~X.s.held THEN X
    ELSE LET X1 == [X EXCEPT !.s.held = FALSE] IN
         IF X1.s.lq # <<>> /\ ~X1.s.lw
         THEN CallSoon([X1 EXCEPT !.s.lw = TRUE], Wake(Head(X1.s.lq)))
         ELSE X1

(***************************************************************************)
(* the environment's reaction to a transmission                            *)
(***************************************************************************)
Dl(X, d, f) ==
    LET n == X.s.nseq IN
    [X EXCEPT !.net = @ \cup {[at |-> now + d, seq |-> n, tr |-> X.s.tr, f |-> f]}, !.s.nseq = n + 1]

Fr(what, r, x) == [what |-> what, of |-> r, x |-> x]

Inject(X, r, f) ==
    CASE f.k = "drop"   -> X
      [] f.k = "ans"    -> Dl(X, f.d, Fr("ans", r, 0))
      [] f.k = "garb"   -> Dl(X, f.d, Fr("garb", 0, 0))
      [] f.k = "dupg"   -> Dl(Dl(X, f.d, Fr("garb", 0, 0)), f.d, Fr("garb", 0, 1))
      [] f.k = "dup"    -> Dl(Dl(X, f.d, Fr("ans", r, 0)), f.d, Fr("ans", r, 1))
      [] f.k = "ansg"   -> Dl(Dl(X, f.d, Fr("ans", r, 0)), f.d, Fr("garb", 0, 0))
      [] f.k = "gans"   -> Dl(Dl(X, f.d, Fr("garb", 0, 0)), f.d, Fr("ans", r, 0))
      \* an exception frame that arrives when the request is already decided: twice, or behind the answer
      [] f.k = "dupx"   -> Dl(Dl(X, f.d, Fr("exc", r, f.x)), f.d, Fr("exc", r, f.x))
      [] f.k = "ansx"   -> Dl(Dl(X, f.d, Fr("ans", r, 0)), f.d, Fr("exc", r, f.x))
      [] f.k = "exc"    -> Dl(X, f.d, Fr("exc", r, f.x))
      [] f.k = "lone"   -> Dl(X, f.d, Fr("head", r, 0))
      [] f.k = "frag"   -> Dl(Dl(X, f.d, Fr("head", r, 0)), f.d2, Fr(f.x, r, 0))
      [] f.k = "pclose" -> Dl(X, f.d, Fr("pclose", 0, 0))
      \* an orderly close of the peer (FIN): eof_received() runs before connection_lost; datagram sockets have none
      [] f.k = "eof"    -> Dl(X, f.d, Fr(IF Kind = "udp" THEN "pclose" ELSE "eof", 0, 0))
      [] f.k = "err"    -> Dl(X, f.d, Fr(IF Kind = "udp" THEN "err" ELSE "pclose", 0, f.x))
      \* the send itself fails.  Datagram sockets report it before sendto() returns (see Transmit); a stream transport
      \* buffers the data and fails later like any other connection error
      [] f.k = "serr"   -> IF Kind = "udp" THEN X ELSE Dl(X, f.d, Fr("pclose", 0, f.x))

(***************************************************************************)
(* task steps                                                              *)
(***************************************************************************)
\* error_received (udp)
ErrorReceived(X, f) ==
    LET st == X.s IN
    IF FutPending(st)
    THEN CloseTransport(Resolve(X, st.cur, "oserr", f))
    ELSE IF "D" \in Fx THEN CloseTransport(X)
    ELSE Emit([X EXCEPT !.s.unh = TRUE], Ev("UNHANDLED"))    \* set_exception on a finished / absent future

\* _send_request: bind command and future, clear the fragment buffer, send, arm the timer
Transmit(X, c, f) ==
    LET st == X.s
        r == Req(c, st.idx[c])
        X1 == [X EXCEPT !.s.cur = c, !.s.res[c] = Pending, !.s.pb = NoF, !.s.pc[c] = "wait", !.uf = TRUE,
                        !.s.rtx[c] = @ + 1]
        Xs == Emit([X1 EXCEPT !.s.ntx = @ + 1], [Ev("SEND") EXCEPT !.tr = st.tr, !.f = Fr("req", r, st.ntx)])
        \* "serr" on a datagram socket: sendto() catches the OSError of the socket and calls error_received() before it
        \* returns - the future fails and the transport is dropped INSIDE _send_request, which then still arms its timer
        \* (connection_lost, queued by the close, cancels it)
        X2 == IF st.tr \in st.open
              THEN (IF f.k = "serr" /\ Kind = "udp"
                    THEN ErrorReceived(Emit(Xs, [Ev("ERR") EXCEPT !.tr = st.tr]), Fr("err", 0, f.x))
                    ELSE Inject(Xs, r, f))
              ELSE X1
        X3 == Arm(X2, "tm", 0, now + T)
    IN [X3 EXCEPT !.s.timer = X2.s.nt]

\* _connect, then _send_request
Connect(X, c, f, o) ==
    LET st == X.s IN
    IF st.tr # 0 /\ st.tr \in st.open THEN Transmit(X, c, f)
    ELSE
    LET X1 == [X EXCEPT !.uo = TRUE, !.s.pc[c] = "conn"]
        X2 == IF Kind = "tcp" THEN Emit(X1, [Ev("CONN") EXCEPT !.why = o]) ELSE X1
    IN CASE o = "ok" ->
              LET id == st.trn IN
              CallSoon(CallSoon(Emit([X2 EXCEPT !.s.trn = id + 1, !.s.open = @ \cup {id},
                                                !.s.conn[c] = [o |-> "ok", tr |-> id]],
                                     [Ev("OPEN") EXCEPT !.tr = id]), CbMade(id)), CbWait(c))
         [] o = "hang" ->
              Arm([X2 EXCEPT !.s.conn[c] = [o |-> "hang", tr |-> 0], !.s.cfails = @ + 1], "ct", c, now + CT)
         [] OTHER ->   \* refused / unreach: fails after one suspension
              CallSoon([X2 EXCEPT !.s.conn[c] = [o |-> o, tr |-> 0], !.s.cfails = @ + 1], Wake(c))

\* await self._ensure_lock().acquire(), then connect and send
Acquire(X, c, f, o) ==
    IF ~X.s.held /\ X.s.lq = <<>> THEN Connect([X EXCEPT !.s.held = TRUE], c, f, o)
    ELSE [X EXCEPT !.s.lq = Append(@, c), !.s.pc[c] = "acq"]

\* the end of execute(): RET, then the caller's next request or the end of its program
Ret(X, c, out, fam, v, g) ==
    LET st == X.s
        r == Req(c, st.idx[c])
        e == [Ev("RET") EXCEPT !.r = r, !.out = out, !.fam = fam, !.f = IF out = "ok" THEN v ELSE NoF,
                                !.msg = IF out = "rejected" THEN v.x ELSE 0]
        X1 == Emit([X EXCEPT !.s.res[c] = [st |-> "none", v |-> NoF]], e)
    IN IF st.idx[c] = NReq THEN [X1 EXCEPT !.s.pc[c] = "done"]
       ELSE LET X2 == [X1 EXCEPT !.s.pc[c] = "idle", !.ug = TRUE] IN
            IF g = 0 THEN CallSoon(X2, Wake(c)) ELSE Arm(X2, "sleep", c, now + g)

\* outcome of execute() as the caller sees it
Outcome(X, c, g) ==
    LET v == X.s.res[c] IN
    CASE v.st = "result" -> Ret(X, c, "ok", TRUE, v.v, g)
      [] v.st = "rejected" -> Ret(X, c, "rejected", TRUE, v.v, g)
      [] v.st = "failed" -> Ret(X, c, "failed", TRUE, v.v, g)
      [] v.st = "oserr" -> IF "E" \in Fx \/ v.v.x = 111 THEN Ret(X, c, "failed", TRUE, v.v, g)
                           ELSE Ret(X, c, "raise", FALSE, v.v, g)

\* the finally blocks of send_request (all frames of the recursion unwind in one go), then
\* execute()'s own finally: close() when keep-alive is off (through the lock on tcp)
Finish(X, c, g) ==
    LET Xa == IF "A" \in Fx /\ X.s.res[c].st # "result" THEN [X EXCEPT !.s.retry = 0] ELSE X   \* repair A
        X1 == Release(Xa)
        X2 == IF Kind = "udp" /\ ~KeepAlive THEN CloseTransport(X1) ELSE X1
    IN IF KeepAlive THEN Outcome(X2, c, g)
       ELSE IF Kind = "udp" THEN Outcome(CloseTransport(X2), c, g)
       ELSE IF ~X2.s.held /\ X2.s.lq = <<>>
            THEN Outcome(Release(CloseTransport([X2 EXCEPT !.s.held = TRUE])), c, g)
            ELSE [X2 EXCEPT !.s.lq = Append(@, c), !.s.pc[c] = "cacq"]

\* _max_retries_reached
MaxRetries(X, c, g) ==
    LET X1 == CloseTransport(X)
        X2 == [X1 EXCEPT !.s.cur = c, !.s.res[c] = [st |-> "failed", v |-> NoF]]
    IN Finish(X2, c, g)

\* except asyncio.CancelledError in send_request
OnCancelled(X, c, f, o, g) ==
    IF X.s.retry < Retries
    THEN LET X1 == Release([X EXCEPT !.s.retry = @ + 1])
             X2 == IF Kind = "tcp" \/ ~KeepAlive THEN CloseTransport(X1) ELSE X1
         IN Acquire(X2, c, f, o)
    ELSE MaxRetries(X, c, g)

\* except (ConnectionRefusedError, TimeoutError, OSError) in the tcp send_request
OnConnError(X, c, f, o, g) ==
    IF X.s.retry < Retries
    THEN Acquire(Release([X EXCEPT !.s.retry = @ + 1]), c, f, o)
    ELSE MaxRetries(X, c, g)

\* task.cancel() by the user of the library while request r is in flight (timer "uc" armed at the CALL).  The task is
\* suspended in `await response_future`: the future is cancelled with it (or, when the future is already done and the
\* wake-up is queued, CancelledError is thrown into the coroutine instead of the result).  send_request cannot tell
\* this from its own timeout: the cancellation is swallowed and becomes a retry (OBS.CancelSwallowed); the timer of the
\* abandoned attempt is NOT cancelled.  Other suspension points (lock, connecting) are outside this model: single
\* caller, connection attempts that do not hang.
UCancel(X, r) ==
    LET c == (r - 1) \div NReq + 1
        st == X.s IN
    IF st.pc[c] = "wait" /\ Req(c, st.idx[c]) = r
    THEN LET X1 == Emit(X, [Ev("UCANCEL") EXCEPT !.r = r]) IN
         IF st.res[c].st = "pending" THEN Resolve(X1, c, "cancelled", NoF)
         ELSE [X1 EXCEPT !.s.res[c] = [st |-> "cancelled", v |-> NoF]]
    ELSE X

TaskStep(X, c, f, o, g, k) ==
    LET st == X.s pc == st.pc[c] IN
    CASE pc = "idle" ->
           LET r == Req(c, st.idx[c] + 1)
               X1 == Emit([X EXCEPT !.s.idx[c] = @ + 1, !.s.rtx[c] = 0, !.uk = TRUE], [Ev("CALL") EXCEPT !.r = r])
               X1k == IF k # 0 THEN Arm(X1, "uc", r, now + k) ELSE X1
           IN Acquire(X1k, c, f, o)
      [] pc = "acq" ->
           Connect([X EXCEPT !.s.lq = Tail(@), !.s.lw = FALSE, !.s.held = TRUE], c, f, o)
      [] pc = "cacq" ->
           Outcome(Release(CloseTransport([X EXCEPT !.s.lq = Tail(@), !.s.lw = FALSE, !.s.held = TRUE])), c, g)
      [] pc = "conn" ->
           LET cn == st.conn[c] IN
           IF cn.o = "ok" THEN Transmit([X EXCEPT !.s.tr = cn.tr], c, f)
           ELSE LET X1 == IF cn.o = "hang" THEN X      \* the guard timer fired: nothing observable happens on the network
                          ELSE Emit(X, [Ev("CONNFAIL") EXCEPT !.why = cn.o]) IN
                IF Kind = "udp"
                THEN Finish([X1 EXCEPT !.s.res[c] = [st |-> "oserr", v |-> Fr("err", 0, 101)]], c, g)
                ELSE OnConnError(X1, c, f, o, g)
      [] pc = "wait" ->
           LET v == st.res[c] IN
           IF v.st = "cancelled" THEN OnCancelled(X, c, f, o, g)
           ELSE IF v.st = "pending" THEN X     \* spurious wake-up cannot happen; keeps the step total
           ELSE Finish(X, c, g)
      [] OTHER -> X

(***************************************************************************)
(* protocol callbacks                                                      *)
(***************************************************************************)
\* _timeout_mechanism; id = 0 when queued by call_soon from datagram_received
Timeout(X, id) ==
    LET st == X.s IN
    IF st.cur # 0 /\ st.res[st.cur].st # "pending"
    THEN IF "B" \in Fx /\ st.res[st.cur].st \in {"cancelled", "none"} THEN X
         ELSE [X EXCEPT !.s.retry = 0]
    ELSE LET X1 == IF "C" \in Fx /\ st.timer # 0 /\ st.timer # id THEN CancelTimer(X, st.timer) ELSE X
             X2 == [X1 EXCEPT !.s.timer = 0]
         IN IF Kind = "tcp" THEN CloseTransport(X2)
            ELSE IF FutPending(X2.s) THEN Resolve(X2, X2.s.cur, "cancelled", NoF) ELSE X2

\* datagram_received / data_received
Received(X, tr, f) ==
    LET X0a == [CancelTimer(X, X.s.timer) EXCEPT !.s.timer = 0]
        st == X0a.s
        fits == st.pb.what = "head" /\ f.what \in {"tail", "tailc"}
        data == IF fits THEN Fr("data", 0, <<st.pb, f>>) ELSE Fr("data", 0, <<f>>)
        X1 == IF fits THEN [X0a EXCEPT !.s.pb = NoF] ELSE X0a
        verdict == IF fits THEN (IF ACompletes(0, st.pb, f) THEN "accept" ELSE "refuse")
                   ELSE CASE f.what = "ans" -> "accept" [] f.what = "head" -> "partial"
                          [] f.what = "exc" -> "rejected" [] OTHER -> "refuse"
        \* repair F: data nobody waits for has no effect
        idle == "F" \in Fx /\ ~FutPending(X1.s)
    IN CASE verdict = "accept" ->
              IF FutPending(X1.s) THEN Resolve([X1 EXCEPT !.s.retry = 0], X1.s.cur, "result", data)
              ELSE IF idle THEN X1 ELSE [X1 EXCEPT !.s.retry = 0]
         [] verdict = "partial" ->
              IF idle THEN X1
              ELSE LET X2 == Arm([X1 EXCEPT !.s.pb = f], "tm", 0, now + T) IN [X2 EXCEPT !.s.timer = X1.s.nt]
         [] verdict = "refuse" ->
              IF Kind = "udp" THEN (IF idle THEN X1 ELSE CallSoon(X1, CbTm(0)))
              ELSE IF FutPending(X1.s)
                   THEN CloseTransport(Resolve(X1, X1.s.cur, "rejected", Fr("exc", 0, -1)))
                   ELSE X1
         [] verdict = "rejected" ->
              LET X2 == IF FutPending(X1.s)
                        THEN Resolve(X1, X1.s.cur, "rejected", f)
                        ELSE X1
              IN IF Kind = "udp" THEN CloseTransport(X2) ELSE X2

Io(X, tr, f) ==
    IF tr \notin X.s.open THEN X       \* the transport is closing: nothing is delivered any more
    ELSE CASE f.what = "pclose" ->
                CallSoon(Emit([X EXCEPT !.s.open = @ \ {tr}], [Ev("PEERCLOSE") EXCEPT !.tr = tr]), CbLost(tr))
           [] f.what = "eof" ->
                \* eof_received(): _close_transport() at once (the protocol's CURRENT transport), then - eof_received returned
                \* None - the loop closes the transport that got the FIN
                LET X1 == CloseTransport(Emit(X, [Ev("PEERCLOSE") EXCEPT !.tr = tr])) IN
                  IF tr \in X1.s.open
                  THEN CallSoon(Emit([X1 EXCEPT !.s.open = @ \ {tr}], [Ev("CLOSE") EXCEPT !.tr = tr]), CbLost(tr))
                  ELSE X1
           [] f.what = "err" -> ErrorReceived(Emit(X, [Ev("ERR") EXCEPT !.tr = tr]), f)
           [] OTHER -> Received(Emit(X, [Ev("DLV") EXCEPT !.tr = tr, !.f = f]), tr, f)

Callback(X, cb, f, o, g, k) ==
    CASE cb.k = "wake"  -> TaskStep(X, cb.c, f, o, g, k)
      [] cb.k = "uc"    -> UCancel(X, cb.c)
      [] cb.k = "tm"    -> IF cb.id # 0 /\ cb.id \in X.s.dead THEN [X EXCEPT !.s.dead = @ \ {cb.id}]
                           ELSE Timeout(X, cb.id)
      [] cb.k = "io"    -> Io(X, cb.tr, cb.f)
      [] cb.k = "lost"  -> CloseTransport(X)                 \* connection_lost
      [] cb.k = "cmade" -> IF Kind = "udp" THEN [X EXCEPT !.s.tr = cb.tr] ELSE X
      [] cb.k = "cwait" -> CallSoon(X, Wake(cb.c))
      [] cb.k = "sleep" -> CallSoon(X, Wake(cb.c))
      [] cb.k = "ct"    -> IF X.s.pc[cb.c] = "conn" /\ X.s.conn[cb.c].o = "hang" THEN CallSoon(X, Wake(cb.c)) ELSE X

(***************************************************************************)
(* the event loop                                                          *)
(***************************************************************************)
F0 == CHOOSE f \in Faults : TRUE
O0 == "ok"
G0 == CHOOSE g \in Gaps : \A h \in Gaps : g <= h
K0 == 0
CancelPicks == CancelAts \cup {K0}

RECURSIVE Feed(_, _, _)
Feed(mm, vv, evs) ==
    IF evs = <<>> THEN [m |-> mm, v |-> vv]
    ELSE LET x == Mon!Step(mm, Head(evs), Meta) IN Feed(x.m, vv \cup x.v, Tail(evs))

RunOne ==
    /\ batch > 0
    /\ \E f \in Faults, o \in ConnOuts, g \in Gaps, k \in CancelPicks :
         LET X == Callback(X0(s), Head(ready), f, o, g, k) IN
         /\ X.uf \/ f = F0
         /\ X.uo \/ o = O0
         /\ X.ug \/ g = G0
         /\ X.uk \/ k = K0
         /\ (X.uo /\ o # "ok") => s.cfails < MaxConnFail
         /\ s' = X.s
         /\ ready' = Tail(ready) \o X.q
         /\ net' = net \cup X.net
         /\ LET y == Feed(mon, viol, X.ev) IN mon' = y.m /\ viol' = y.v
    /\ batch' = batch - 1
    /\ UNCHANGED now

Min(S) == CHOOSE x \in S : \A y \in S : x <= y

\* deliveries select() hands over at time t: all that are due (liberal) or the oldest per transport (strict)
Due(t) == {d \in net : d.at <= t}
HandOver(t) ==
    IF Strict
    THEN {d \in Due(t) : \A e \in Due(t) : e.tr = d.tr => (d.at < e.at \/ (d.at = e.at /\ d.seq <= e.seq))}
    ELSE Due(t)

RECURSIVE SeqOfNet(_)
SeqOfNet(S) == IF S = {} THEN <<>>
               ELSE LET d == CHOOSE x \in S : \A y \in S : x.at < y.at \/ (x.at = y.at /\ x.seq <= y.seq)
                    IN <<CbIo(d.tr, d.f)>> \o SeqOfNet(S \ {d})

\* due timers in deadline order; equal deadlines in any order
RECURSIVE TimerOrders(_)
TimerOrders(S) ==
    IF S = {} THEN {<<>>}
    ELSE LET m == Min({h.at : h \in S}) IN
         UNION {{<<[k |-> h.k, c |-> h.c, tr |-> 0, f |-> NoF, id |-> h.id]>> \o rest : rest \in TimerOrders(S \ {h})}
                : h \in {x \in S : x.at = m}}

Iterate ==
    /\ batch = 0
    /\ LET times == {h.at : h \in s.timers} \cup {d.at : d \in net}
           t == IF ready # <<>> THEN now ELSE Min(times)
       IN /\ (ready # <<>> \/ times # {})
          /\ t <= Horizon
          /\ now' = IF t > now THEN t ELSE now
          /\ LET tt == IF t > now THEN t ELSE now
                 io == HandOver(tt)
                 tm == {h \in s.timers : h.at <= tt}
             IN \E ord \in TimerOrders(tm) :
                  /\ ready' = ready \o SeqOfNet(io) \o ord
                  /\ net' = net \ io
                  /\ s' = [s EXCEPT !.timers = @ \ tm]
                  /\ batch' = Len(ready')
    /\ UNCHANGED <<mon, viol>>

Terminal == batch = 0 /\ ready = <<>> /\ s.timers = {} /\ net = {}

\* when the loop has nothing left, the END event closes the observation (batch = -1: ended)
Finished ==
    /\ Terminal
    /\ LET x == Mon!Step(mon, Ev("END"), Meta) IN
         /\ viol' = viol \cup x.v
         /\ mon' = x.m
    /\ batch' = -1
    /\ UNCHANGED <<now, ready, net, s>>

Next == RunOne \/ Iterate \/ Finished

Spec == Init /\ [][Next]_vars /\ WF_vars(Next)

(***************************************************************************)
(* properties                                                              *)
(***************************************************************************)
\* every clause of the monitor, in every reachable state of every schedule
NoViolation == viol \subseteq Mon!ObsClauses

\* a request never hangs: whenever the loop runs dry every caller has finished
NoHang == (Terminal \/ batch = -1) => \A c \in Callers : s.pc[c] = "done"

TimeBounded == now <= Horizon

\* structural invariants of the design
OneTransport == Cardinality(s.open) <= 1
LockSane == (s.lw => s.lq # <<>>) /\ (s.held => ~s.lw \/ s.lq # <<>>)
OnePending == Cardinality({c \in Callers : s.res[c].st = "pending"}) <= 1
RetryBounded == s.retry <= Retries
NoUnhandled == ~s.unh

Termination == <>(\A c \in Callers : s.pc[c] = "done")
=============================================================================
