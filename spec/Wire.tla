------------------------------- MODULE Wire -------------------------------
(***************************************************************************)
(* Frame grammar of the three wire formats spoken by goodwe:               *)
(*   "rtu"  Modbus/RTU request, answered inside an AA55 envelope (UDP)     *)
(*   "tcp"  Modbus/TCP (MBAP header, no checksum)                          *)
(*   "aa55" the older AA55 protocol (additive checksum)                    *)
(*                                                                         *)
(* Everything here is constant level: builders and parsers of requests,    *)
(* the declarative notion of a well-formed answer to a command (taken      *)
(* from the statement of property C01, not from the implementation), the   *)
(* standard Modbus exception reasons (C08) and the set-valued oracle       *)
(* Allowed(cmd, data) that says which validator outcomes the properties    *)
(* permit for a byte string.                                               *)
(*                                                                         *)
(* Frames are Seq(0..255), 1-indexed.  A command is a record               *)
(*   [fr |-> "rtu"|"tcp"|"aa55", op |-> "read"|"write"|"wmulti"|"raw",     *)
(*    addr |-> 0..255, reg |-> 0..65535, n |-> Nat, rt |-> 0..65535]       *)
(* n is the register count (read, wmulti) or the value as unsigned 16 bit  *)
(* (write); rt is the AA55 response type (aa55 only), -1 = unchecked.      *)
(***************************************************************************)
EXTENDS Integers, Sequences, SequencesExt, Bitwise, FiniteSets

Byte == 0..255

Hi(w) == (w \div 256) % 256
Lo(w) == w % 256
BE16(a, b) == a * 256 + b
U16(v) == IF v < 0 THEN v + 65536 ELSE v          \* two's complement of a signed 16 bit value
S16(w) == IF w >= 32768 THEN w - 65536 ELSE w
S8(b)  == IF b >= 128 THEN b - 256 ELSE b

Sub(s, a, b) == IF a > b THEN <<>> ELSE SubSeq(s, a, b)

(***************************************************************************)
(* CRC-16/MODBUS: reflected polynomial 0xA001, initial value 0xFFFF,       *)
(* transmitted low byte first.                                             *)
(***************************************************************************)
RECURSIVE CrcBits(_, _)
CrcBits(c, k) == IF k = 0 THEN c
                 ELSE CrcBits(IF c % 2 = 1 THEN (c \div 2) ^^ 40961 ELSE c \div 2, k - 1)
CrcTable == [i \in 0..255 |-> CrcBits(i, 8)]
Crc16(s) == FoldLeft(LAMBDA acc, b : (acc \div 256) ^^ CrcTable[(acc ^^ b) % 256], 65535, s)

Sum16(s) == FoldLeft(LAMBDA acc, b : acc + b, 0, s) % 65536
SumAll(s) == FoldLeft(LAMBDA acc, b : acc + b, 0, s)

(***************************************************************************)
(* Requests: builders                                                      *)
(***************************************************************************)
FnOf(op) == CASE op = "read" -> 3 [] op = "write" -> 6 [] op = "wmulti" -> 16

WithCrc(s) == LET c == Crc16(s) IN s \o <<Lo(c), Hi(c)>>

RtuReq(addr, op, reg, n) == WithCrc(<<addr, FnOf(op), Hi(reg), Lo(reg), Hi(n), Lo(n)>>)
RtuMultiReq(addr, reg, payload) ==
    WithCrc(<<addr, 16, Hi(reg), Lo(reg), 0, Len(payload) \div 2, Len(payload)>> \o payload)

\* tx is the transaction identifier
TcpReq(tx, addr, op, reg, n) ==
    <<Hi(tx), Lo(tx), 0, 0, 0, 6, addr, FnOf(op), Hi(reg), Lo(reg), Hi(n), Lo(n)>>
TcpMultiReq(tx, addr, reg, payload) ==
    <<Hi(tx), Lo(tx), 0, 0, Hi(7 + Len(payload)), Lo(7 + Len(payload)), addr, 16, Hi(reg), Lo(reg),
      0, Len(payload) \div 2, Len(payload)>> \o payload

\* body = control code, function code, length byte, payload
Aa55Req(body) == LET f == <<170, 85, 192, 127>> \o body
                     c == SumAll(f)
                 IN  f \o <<Hi(c), Lo(c)>>
Aa55Read(reg, count)   == Aa55Req(<<1, 26, 3, Hi(reg), Lo(reg), count>>)
Aa55Write(reg, val)    == Aa55Req(<<2, 57, 5, Hi(reg), Lo(reg), 1, Hi(val), Lo(val)>>)
Aa55WriteMulti(reg, payload) ==
    Aa55Req(<<2, 57, 3 + Len(payload), Hi(reg), Lo(reg), Len(payload)>> \o payload)

(***************************************************************************)
(* Requests: an independent decoder (field by field from the documented    *)
(* layout).  Result is a record with ok |-> FALSE when the bytes are not   *)
(* a well-formed request of the framing.                                   *)
(***************************************************************************)
Bad == [ok |-> FALSE]

ParseRtu(b) ==
    IF Len(b) < 8 THEN Bad
    ELSE LET fn == b[2] IN
      IF fn \in {3, 6} THEN
         IF Len(b) = 8 /\ Crc16(Sub(b, 1, 6)) = BE16(b[8], b[7])
         THEN [ok |-> TRUE, op |-> IF fn = 3 THEN "read" ELSE "write", addr |-> b[1],
               reg |-> BE16(b[3], b[4]), n |-> BE16(b[5], b[6]), payload |-> <<>>, tx |-> 0]
         ELSE Bad
      ELSE IF fn = 16 THEN
         IF Len(b) >= 9 /\ Len(b) = 9 + b[7] /\ b[7] % 2 = 0 /\ BE16(b[5], b[6]) * 2 = b[7]
            /\ Crc16(Sub(b, 1, Len(b) - 2)) = BE16(b[Len(b)], b[Len(b) - 1])
         THEN [ok |-> TRUE, op |-> "wmulti", addr |-> b[1], reg |-> BE16(b[3], b[4]),
               n |-> BE16(b[5], b[6]), payload |-> Sub(b, 8, Len(b) - 2), tx |-> 0]
         ELSE Bad
      ELSE Bad

ParseTcp(b) ==
    IF Len(b) < 12 THEN Bad
    ELSE IF BE16(b[3], b[4]) # 0 \/ BE16(b[5], b[6]) # Len(b) - 6 THEN Bad
    ELSE LET fn == b[8] tx == BE16(b[1], b[2]) IN
      IF fn \in {3, 6} THEN
         IF Len(b) = 12
         THEN [ok |-> TRUE, op |-> IF fn = 3 THEN "read" ELSE "write", addr |-> b[7],
               reg |-> BE16(b[9], b[10]), n |-> BE16(b[11], b[12]), payload |-> <<>>, tx |-> tx]
         ELSE Bad
      ELSE IF fn = 16 THEN
         IF Len(b) >= 13 /\ Len(b) = 13 + b[13] /\ b[13] % 2 = 0 /\ BE16(b[11], b[12]) * 2 = b[13]
         THEN [ok |-> TRUE, op |-> "wmulti", addr |-> b[7], reg |-> BE16(b[9], b[10]),
               n |-> BE16(b[11], b[12]), payload |-> Sub(b, 14, Len(b)), tx |-> tx]
         ELSE Bad
      ELSE Bad

\* AA55: header AA55 C07F, control, function, length, payload, additive checksum
ParseAa55(b) ==
    IF Len(b) < 9 THEN Bad
    ELSE IF <<b[1], b[2], b[3], b[4]>> # <<170, 85, 192, 127>> THEN Bad
    ELSE IF b[7] # Len(b) - 9 THEN Bad
    ELSE IF SumAll(Sub(b, 1, Len(b) - 2)) # BE16(b[Len(b) - 1], b[Len(b)]) THEN Bad
    ELSE LET ctl == b[5] fn == b[6] pl == Sub(b, 8, Len(b) - 2) IN
      IF ctl = 1 /\ fn = 26 /\ Len(pl) = 3
      THEN [ok |-> TRUE, op |-> "read", addr |-> 127, reg |-> BE16(pl[1], pl[2]), n |-> pl[3],
            payload |-> <<>>, tx |-> 0]
      ELSE IF ctl = 2 /\ fn = 57 /\ Len(pl) = 5 /\ pl[3] = 1
      THEN [ok |-> TRUE, op |-> "write", addr |-> 127, reg |-> BE16(pl[1], pl[2]),
            n |-> BE16(pl[4], pl[5]), payload |-> <<>>, tx |-> 0]
      ELSE IF ctl = 2 /\ fn = 57 /\ Len(pl) >= 3 /\ pl[3] = Len(pl) - 3
      THEN [ok |-> TRUE, op |-> "wmulti", addr |-> 127, reg |-> BE16(pl[1], pl[2]),
            n |-> (Len(pl) - 3) \div 2, payload |-> Sub(pl, 4, Len(pl)), tx |-> 0]
      ELSE [ok |-> TRUE, op |-> "raw", addr |-> 127, reg |-> BE16(ctl, fn), n |-> Len(pl),
            payload |-> pl, tx |-> 0]

ParseRequest(fr, b) == CASE fr = "rtu" -> ParseRtu(b) [] fr = "tcp" -> ParseTcp(b)
                         [] fr = "aa55" -> ParseAa55(b)

IsWriteRequest(fr, b) ==
    LET p == ParseRequest(fr, b) IN
      p.ok /\ (p.op \in {"write", "wmulti"} \/ (fr = "aa55" /\ p.op = "raw" /\ Hi(p.reg) \in {2, 3}))

(***************************************************************************)
(* Answers                                                                 *)
(***************************************************************************)
\* Standard reasons of the Modbus exception codes (C08).
Reason(code) ==
    CASE code = 1 -> "ILLEGAL FUNCTION"
      [] code = 2 -> "ILLEGAL DATA ADDRESS"
      [] code = 3 -> "ILLEGAL DATA VALUE"
      [] code = 4 -> "SLAVE DEVICE FAILURE"
      [] code = 5 -> "ACKNOWLEDGE"
      [] code = 6 -> "SLAVE DEVICE BUSY"
      [] code = 7 -> "NEGATIVE ACKNOWLEDGEMENT"
      [] code = 8 -> "MEMORY PARITY ERROR"
      [] code = 10 -> "GATEWAY PATH UNAVAILABLE"
      [] code = 11 -> "GATEWAY TARGET DEVICE FAILED TO RESPOND"
      [] OTHER -> "UNKNOWN"
\* the Modbus specification spells code 7 "NEGATIVE ACKNOWLEDGE"; both are accepted
ReasonOk(code, msg) == msg = Reason(code) \/ (code = 7 /\ msg = "NEGATIVE ACKNOWLEDGE")

\* Builders of answers (what a conforming inverter sends)
RtuReadAnswer(addr, payload) ==
    <<170, 85>> \o WithCrc(<<addr, 3, Len(payload)>> \o payload)
RtuWriteAnswer(addr, fn, reg, n) ==
    <<170, 85>> \o WithCrc(<<addr, fn, Hi(reg), Lo(reg), Hi(n), Lo(n)>>)
RtuExceptionAnswer(addr, fn, code) ==
    <<170, 85>> \o WithCrc(<<addr, fn + 128, code>>)
TcpReadAnswer(tx, addr, payload) ==
    <<Hi(tx), Lo(tx), 0, 0, Hi(3 + Len(payload)), Lo(3 + Len(payload)), addr, 3, Len(payload)>> \o payload
TcpWriteAnswer(tx, addr, fn, reg, n) ==
    <<Hi(tx), Lo(tx), 0, 0, 0, 6, addr, fn, Hi(reg), Lo(reg), Hi(n), Lo(n)>>
TcpExceptionAnswer(tx, addr, fn, code) ==
    <<Hi(tx), Lo(tx), 0, 0, 0, 3, addr, fn + 128, code>>
Aa55Answer(rt, payload) ==
    LET f == <<170, 85, 127, 192, Hi(rt), Lo(rt), Len(payload)>> \o payload
        c == SumAll(f)
    IN  f \o <<Hi(c), Lo(c)>>

\* C01: a well-formed answer to this very command
WellFormed(cmd, d) ==
    CASE cmd.fr = "rtu" ->
           IF cmd.op = "read"
           THEN /\ Len(d) >= 2 * cmd.n + 7
                /\ d[4] = 3
                /\ d[5] = 2 * cmd.n
                /\ Crc16(Sub(d, 3, 2 * cmd.n + 5)) = BE16(d[2 * cmd.n + 7], d[2 * cmd.n + 6])
           ELSE /\ Len(d) >= 10
                /\ d[4] = FnOf(cmd.op)
                /\ BE16(d[5], d[6]) = cmd.reg
                /\ BE16(d[7], d[8]) = cmd.n
                /\ Crc16(Sub(d, 3, 8)) = BE16(d[10], d[9])
      [] cmd.fr = "tcp" ->
           IF cmd.op = "read"
           THEN /\ Len(d) >= 2 * cmd.n + 9
                /\ d[8] = 3
                /\ d[9] = 2 * cmd.n
           ELSE /\ Len(d) >= 12
                /\ d[8] = FnOf(cmd.op)
                /\ BE16(d[9], d[10]) = cmd.reg
                /\ BE16(d[11], d[12]) = cmd.n
      [] cmd.fr = "aa55" ->
           /\ Len(d) >= 9
           /\ Len(d) = d[7] + 9
           /\ (cmd.rt >= 0 => BE16(d[5], d[6]) = cmd.rt)
           /\ Sum16(Sub(d, 1, Len(d) - 2)) = BE16(d[Len(d) - 1], d[Len(d)])     \* 16 bit additive checksum

\* C08: a Modbus exception frame answering this command (function | 0x80, valid checksum)
IsException(cmd, d) ==
    CASE cmd.fr = "rtu" ->
           /\ Len(d) = 7
           /\ d[4] = FnOf(cmd.op) + 128
           /\ Crc16(Sub(d, 3, 5)) = BE16(d[7], d[6])
      [] cmd.fr = "tcp" ->
           /\ Len(d) >= 9
           /\ d[8] = FnOf(cmd.op) + 128
      [] OTHER -> FALSE
ExceptionCode(cmd, d) == IF cmd.fr = "rtu" THEN d[5] ELSE d[9]

\* C07: the first piece of a fragmented read answer: header up to its length field is
\* there, nothing of the checksum yet.  Expected(cmd, d) is the full length announced.
MinHead(cmd) == IF cmd.fr = "rtu" THEN 5 ELSE 9
IsHead(cmd, d) ==
    CASE cmd.fr = "rtu" ->
           /\ cmd.op = "read"
           /\ Len(d) >= 5 /\ Len(d) <= 2 * cmd.n + 5
           /\ d[4] = 3 /\ d[5] = 2 * cmd.n
      [] cmd.fr = "tcp" ->
           /\ cmd.op = "read"
           /\ Len(d) >= 9 /\ Len(d) < 2 * cmd.n + 9
           /\ d[8] = 3 /\ d[9] = 2 * cmd.n
      [] cmd.fr = "aa55" ->
           /\ Len(d) >= 9 /\ Len(d) <= d[7] + 7
           /\ (cmd.rt >= 0 => BE16(d[5], d[6]) = cmd.rt)
Expected(cmd, d) ==
    CASE cmd.fr = "rtu" -> 2 * cmd.n + 7
      [] cmd.fr = "tcp" -> 2 * cmd.n + 9
      [] cmd.fr = "aa55" -> d[7] + 9

(***************************************************************************)
(* The oracle.  must is one of                                             *)
(*   "accept"    WellFormed: the validator has to accept (C02)             *)
(*   "rejected"  exception frame: RequestRejected(Reason(code)) (C08)      *)
(*   "partial"   head of an answer: 'partial' with these lengths (C07)     *)
(*   "nonaccept" anything else: any documented outcome except accept (C01) *)
(***************************************************************************)
Allowed(cmd, d) ==
    IF WellFormed(cmd, d) THEN [must |-> "accept", code |-> 0, len |-> Len(d), exp |-> 0]
    ELSE IF IsException(cmd, d)
         THEN [must |-> "rejected", code |-> ExceptionCode(cmd, d), len |-> Len(d), exp |-> 0]
    ELSE IF IsHead(cmd, d)
         THEN [must |-> "partial", code |-> 0, len |-> Len(d), exp |-> Expected(cmd, d)]
    ELSE [must |-> "nonaccept", code |-> 0, len |-> Len(d), exp |-> 0]

\* Payload carried by a well-formed answer
Payload(cmd, d) ==
    CASE cmd.fr = "rtu" -> IF cmd.op = "read" THEN Sub(d, 6, 2 * cmd.n + 5) ELSE Sub(d, 6, 8)
      [] cmd.fr = "tcp" -> IF cmd.op = "read" THEN Sub(d, 10, 2 * cmd.n + 9) ELSE Sub(d, 10, 12)
      [] cmd.fr = "aa55" -> Sub(d, 8, Len(d) - 2)

\* request bytes of a command as the library must transmit them (tcp: for transaction id tx)
RequestOf(cmd, tx, payload) ==
    CASE cmd.fr = "rtu" /\ cmd.op = "wmulti" -> RtuMultiReq(cmd.addr, cmd.reg, payload)
      [] cmd.fr = "rtu" -> RtuReq(cmd.addr, cmd.op, cmd.reg, cmd.n)
      [] cmd.fr = "tcp" /\ cmd.op = "wmulti" -> TcpMultiReq(tx, cmd.addr, cmd.reg, payload)
      [] cmd.fr = "tcp" -> TcpReq(tx, cmd.addr, cmd.op, cmd.reg, cmd.n)
      [] cmd.fr = "aa55" /\ cmd.op = "read" -> Aa55Read(cmd.reg, cmd.n)
      [] cmd.fr = "aa55" /\ cmd.op = "write" -> Aa55Write(cmd.reg, cmd.n)
      [] cmd.fr = "aa55" /\ cmd.op = "wmulti" -> Aa55WriteMulti(cmd.reg, payload)
=============================================================================
