SPECIFICATION PSpec
CHECK_DEADLOCK FALSE
