---------------------------- MODULE TraceDecode ----------------------------
(***************************************************************************)
(* Judges what the real decoding layer returned (read_runtime_data,        *)
(* read_settings_data, read_sensor, read_setting of ET / DT / ES) against  *)
(* Decode.tla.                                                             *)
(*                                                                         *)
(* A batch holds: the byte strings (Frames), the label tables and sensor   *)
(* listings exported from the live classes (Labels, Tables), and the       *)
(* spans: one public call each, with the responses served inside it        *)
(* (first address, count, unit, payload) and the projected result.         *)
(*                                                                         *)
(* Clauses                                                                 *)
(*   C11.Total            the call raised although every response was a    *)
(*                        full-length answer                               *)
(*   C11.AllKeys          the result does not cover exactly the listed ids *)
(*   C11.UndecodableIsNone a value was reported for bytes that have no     *)
(*                        documented reading                               *)
(*   C12.Value            a raw sensor's value is not the documented       *)
(*                        reading of its own bytes, located by             *)
(*                        (address - first) * 2 resp. the plain offset     *)
(*   C13.Label / C13.Bitmap / C13.Derived   a derived sensor disagrees     *)
(*                        with its definition over the raw values of the   *)
(*                        same result                                      *)
(***************************************************************************)
EXTENDS Decode, Json, IOUtils

Wr == INSTANCE Wire

Batch  == JsonDeserialize(IOEnv.VERIF_BATCH)
Frames == Batch.frames
Labels == Batch.labels
Tables == Batch.tables
Spans  == Batch.spans
N      == Len(Spans)
Fr(f)  == Frames[f]

Par(e) == [scale |-> e.scale, labels |-> IF e.lab = 0 THEN <<>> ELSE Labels[e.lab]]

RawTypes == {"Voltage", "Current", "CurrentS", "Frequency", "Power", "PowerS", "Energy", "Apparent", "Reactive", "Temp",
             "CellVoltage", "Integer", "IntegerS", "Decimal", "Enum2", "Byte", "ByteH", "Enum", "EnumH", "ByteL", "EnumL",
             "Power4", "Power4S", "Energy4", "Energy4W", "Apparent4", "Reactive4", "Long", "LongS", "Float", "EnumBitmap4",
             "Timestamp", "Energy8", "EcoModeV1", "EcoModeV2", "Schedule", "PeakShavingMode"}
LabelTypes == {"Enum", "EnumH", "EnumL", "Enum2"}
CodeTypes == {"Byte", "ByteH", "ByteL", "Integer"}

\* the response that covers register/offset a
Covering(sp, a) == {k \in 1..Len(sp.resp) : sp.resp[k].first <= a /\ a < sp.resp[k].first + sp.resp[k].count}
\* n bytes at address a, or <<>> if no response holds them completely
Holding(sp, a, n) == {k \in Covering(sp, a) : (a - sp.resp[k].first) * sp.resp[k].unit + n <= Len(sp.resp[k].pl)}
BytesAt(sp, a, n) ==
    IF Holding(sp, a, n) = {} THEN <<>>
    ELSE LET r == sp.resp[CHOOSE k \in Holding(sp, a, n) : TRUE]
             pos == (a - r.first) * r.unit
         IN SubSeq(r.pl, pos + 1, pos + n)

Own(sp, e) == BytesAt(sp, e.addr, Size(e.ty))

\* value of result entry id, NoneV-like marker when missing
Has(sp, id) == id \in DOMAIN sp.res
Res(sp, id) == sp.res[id]

\* the entry that decides the value of id: the last one listed (computed once per table)
TabLast == [t \in 1..Len(Tables) |->
              [k \in 1..Len(Tables[t]) |-> \A j \in (k + 1)..Len(Tables[t]) : Tables[t][j].id # Tables[t][k].id]]

(***************************************************************************)
(* "exactly its own registers": two raw sensors of one table never share   *)
(* part of their bytes (aliases - same start, or one inside the other such *)
(* as a label / half-register sensor - are fine).  Computed once per table *)
(* for register addressing (unit 2) and for plain byte offsets (unit 1).   *)
(***************************************************************************)
ByteRange(e, unit) ==
    IF unit = 2
    THEN LET half == e.ty \in {"ByteL", "EnumL"}
             lo == e.addr * 2 + (IF half THEN 1 ELSE 0)
         IN [lo |-> lo, hi |-> lo + (IF half THEN 1 ELSE Size(e.ty))]
    ELSE [lo |-> e.addr, hi |-> e.addr + (IF e.ty \in {"ByteL", "EnumL"} THEN 2 ELSE Size(e.ty))]
Partial(a, b) == /\ a.lo < b.hi /\ b.lo < a.hi /\ a.lo # b.lo
                 /\ ~(a.lo <= b.lo /\ b.hi <= a.hi) /\ ~(b.lo <= a.lo /\ a.hi <= b.hi)
\* byte ranges are constant-level tables (TLC caches those); the pairwise comparison then works on integers only
IsRaw(e) == e.ty \in RawTypes /\ Size(e.ty) > 0
TabRange2 == [t \in 1..Len(Tables) |-> [k \in 1..Len(Tables[t]) |->
                 IF IsRaw(Tables[t][k]) THEN ByteRange(Tables[t][k], 2) ELSE [lo |-> 0, hi |-> 0]]]
TabRange1 == [t \in 1..Len(Tables) |-> [k \in 1..Len(Tables[t]) |->
                 IF IsRaw(Tables[t][k]) THEN ByteRange(Tables[t][k], 1) ELSE [lo |-> 0, hi |-> 0]]]
\* k and j overlap partially iff one of them starts strictly inside the other and ends beyond it.  Decided in linear
\* time through an index "ends of the entries starting at byte a" (a pairwise comparison costs TLC seconds per table).
SeqMax(q, z) == Wr!FoldLeft(LAMBDA acc, x : IF x > acc THEN x ELSE acc, z, q)
SeqMin(q, z) == Wr!FoldLeft(LAMBDA acc, x : IF x < acc THEN x ELSE acc, z, q)
OverlapIds(t, rng) ==
    LET raw   == {k \in 1..Len(rng) : rng[k].hi > rng[k].lo}
        maxl  == SeqMax([k \in 1..Len(rng) |-> rng[k].hi - rng[k].lo], 0)
        base  == SeqMin([k \in 1..Len(rng) |-> IF k \in raw THEN rng[k].lo ELSE 1000000], 1000000) - maxl
        top   == SeqMax([k \in 1..Len(rng) |-> rng[k].hi], base)
        ends  == Wr!FoldLeft(LAMBDA acc, k : IF k \in raw THEN [acc EXCEPT ![rng[k].lo - base + 1] = @ \cup {rng[k].hi}] ELSE acc,
                          [a \in 1..(top - base + 1) |-> {}], [k \in 1..Len(rng) |-> k])
        EndsAt(a) == ends[a - base + 1]
        straddled == {k \in raw : \E d \in 1..(rng[k].hi - rng[k].lo - 1) : \E h \in EndsAt(rng[k].lo + d) : h > rng[k].hi}
        straddler == {j \in raw : \E d \in 1..maxl : \E h \in EndsAt(rng[j].lo - d) : h > rng[j].lo /\ h < rng[j].hi}
    IN {Tables[t][k].id : k \in straddled \cup straddler}
\* only the tables (and addressing units) the spans of this batch refer to are analysed
UsedTabs(mb) == {Spans[i].tab : i \in {i \in 1..N : Spans[i].api = "runtime" /\ Spans[i].ok /\ Spans[i].modbus = mb}}
TabOverlap2 == [t \in 1..Len(Tables) |-> IF t \in UsedTabs(TRUE) THEN OverlapIds(t, TabRange2[t]) ELSE {}]
TabOverlap1 == [t \in 1..Len(Tables) |-> IF t \in UsedTabs(FALSE) THEN OverlapIds(t, TabRange1[t]) ELSE {}]
\* "exactly its own registers": the extent a sensor declares (size_, which the single-register reads are sized from) is the
\* extent of its documented type
SizedTypes == RawTypes \cup {"Timestamp", "EcoModeV1", "EcoModeV2", "Schedule", "PeakShavingMode", "Long", "LongS",
                             "EnumBitmap4", "Integer", "IntegerS", "Decimal", "Enum2"}
TabSize == [t \in 1..Len(Tables) |->
              {Tables[t][k].id : k \in {k \in 1..Len(Tables[t]) : /\ Tables[t][k].ty \in SizedTypes \ {"ByteL", "EnumL", "ByteH", "EnumH", "Byte", "Enum"}
                                                                 /\ Size(Tables[t][k].ty) >= 2
                                                                 /\ Tables[t][k].size # 0
                                                                 /\ Tables[t][k].size # Size(Tables[t][k].ty)}}]
JudgeSize(sp) ==
    IF sp.api \notin {"runtime", "settings"} \/ ~sp.ok THEN {} ELSE {"C12.Size:" \o id : id \in TabSize[sp.tab]}

JudgeOverlap(sp) ==
    IF sp.api # "runtime" \/ ~sp.ok THEN {}
    ELSE {"C12.Overlap:" \o id : id \in (IF sp.modbus THEN TabOverlap2[sp.tab] ELSE TabOverlap1[sp.tab])}

(***************************************************************************)
(* small signed big-number arithmetic on [neg, l] (l = limbs, no den)      *)
(***************************************************************************)
RECURSIVE AddRev(_, _, _)
AddRev(x, y, c) ==      \* least significant first
    IF x = <<>> /\ y = <<>> THEN (IF c = 0 THEN <<>> ELSE <<c>>)
    ELSE LET a == IF x = <<>> THEN 0 ELSE x[1]
             b == IF y = <<>> THEN 0 ELSE y[1]
             t == a + b + c
         IN <<t % 65536>> \o AddRev(IF x = <<>> THEN <<>> ELSE Tail(x), IF y = <<>> THEN <<>> ELSE Tail(y), t \div 65536)
AddL(x, y) == Strip(Rev(AddRev(Rev(x), Rev(y), 0)))
RECURSIVE SubRev(_, _, _)
SubRev(x, y, bw) ==     \* x >= y, least significant first
    IF x = <<>> THEN <<>>
    ELSE LET b == IF y = <<>> THEN 0 ELSE y[1]
             t == x[1] - b - bw
         IN <<IF t < 0 THEN t + 65536 ELSE t>> \o SubRev(Tail(x), IF y = <<>> THEN <<>> ELSE Tail(y), IF t < 0 THEN 1 ELSE 0)
SubL(x, y) == Strip(Rev(SubRev(Rev(x), Rev(y), 0)))
RECURSIVE GeqL(_, _)
GeqL(x, y) ==           \* stripped limbs, most significant first
    IF Len(x) # Len(y) THEN Len(x) > Len(y)
    ELSE IF x = <<>> THEN TRUE
    ELSE IF x[1] # y[1] THEN x[1] > y[1] ELSE GeqL(Tail(x), Tail(y))
SN(neg, l) == [neg |-> neg /\ ~IsZero(l), l |-> Strip(l)]
SAdd(x, y) == IF x.neg = y.neg THEN SN(x.neg, AddL(x.l, y.l))
              ELSE IF GeqL(x.l, y.l) THEN SN(x.neg, SubL(x.l, y.l)) ELSE SN(y.neg, SubL(y.l, x.l))
SNeg(x) == SN(~x.neg, x.l)
SOfVal(v) == SN(v.a[2] = 1, Limbs(v))          \* of a "num" value with den 1
ValOfS(x) == Num(1, x.neg, x.l)
SInt(n) == SN(n < 0, <<(IF n < 0 THEN -n ELSE n) \div 65536, (IF n < 0 THEN -n ELSE n) % 65536>>)

(***************************************************************************)
(* raw sensors (C11, C12)                                                  *)
(***************************************************************************)
JudgeRaw(sp, e) ==
    LET b == Own(sp, e) IN
    IF b = <<>> \/ ~Has(sp, e.id) THEN {}
    ELSE LET want == Decode(e.ty, Par(e), b)
             got == Res(sp, e.id)
         IN IF want.k = "undecided" \/ got.k = "coarse" THEN {"INFO.undecided"}
            ELSE IF ValEq(want, got) THEN {}
            ELSE IF want.k = "none" THEN {"C11.UndecodableIsNone:" \o e.id}
            ELSE {"C12.Value:" \o e.id}

(***************************************************************************)
(* labels and bitmaps (C13): the code sensor at the same address           *)
(***************************************************************************)
HalfOf(ty) == IF ty \in {"ByteL", "EnumL"} THEN 2 ELSE 1
WidthOf(ty) == IF ty \in {"Integer", "Enum2"} THEN 2 ELSE 1
CodeEntries(sp, tab, e) == {j \in 1..Len(tab) : /\ tab[j].ty \in CodeTypes /\ tab[j].addr = e.addr
                                            /\ WidthOf(tab[j].ty) = WidthOf(e.ty)
                                            /\ (WidthOf(e.ty) = 1 => HalfOf(tab[j].ty) = HalfOf(e.ty))
                                            /\ TabLast[sp.tab][j]}
\* integer value of a small "num" (den 1, one limb)
SmallInt(v) == IF v.a[2] = 1 THEN -v.a[Len(v.a)] ELSE v.a[Len(v.a)]

JudgeLabel(sp, tab, e) ==
    IF ~Has(sp, e.id) \/ CodeEntries(sp, tab, e) = {} \/ BytesAt(sp, e.addr, Size(e.ty)) = <<>> THEN {}
    ELSE LET c == tab[CHOOSE j \in CodeEntries(sp, tab, e) : TRUE] IN
         IF ~Has(sp, c.id) \/ Res(sp, c.id).k # "num" \/ Len(Res(sp, c.id).a) # 3 THEN {}
         ELSE IF Res(sp, e.id) = Lookup(Par(e).labels, SmallInt(Res(sp, c.id))) THEN {} ELSE {"C13.Label:" \o e.id}

\* 4-byte bitmap next to the Long at the same address
LongEntries(sp, tab, e) == {j \in 1..Len(tab) : tab[j].ty = "Long" /\ tab[j].addr = e.addr /\ TabLast[sp.tab][j]}
WordsOfNum(v) == LET l == Limbs(v) IN IF Len(l) = 1 THEN <<0, l[1]>> ELSE <<l[1], l[2]>>
\* (judged when the response holds all four bytes of the pair: an answer cut inside the field is outside the register
\* contents the statement quantifies over)
JudgeBitmap4(sp, tab, e) ==
    IF ~Has(sp, e.id) \/ LongEntries(sp, tab, e) = {} \/ BytesAt(sp, e.addr, 4) = <<>> THEN {}
    ELSE LET c == tab[CHOOSE j \in LongEntries(sp, tab, e) : TRUE] IN
         IF ~Has(sp, c.id) \/ Res(sp, c.id).k # "num" THEN {}
         ELSE LET w == WordsOfNum(Res(sp, c.id)) IN
              IF Res(sp, e.id) = Bitmap(w[1], w[2], Par(e).labels) THEN {} ELSE {"C13.Bitmap:" \o e.id}

\* what 'h << 16 + l' (parsed as h << (16 + l)) yields: the reading of the code as found, see known_findings.json
Legacy22(h, l, labels) == IF l >= 16 THEN Str("") ELSE Bitmap((h * (2 ^ l)) % 65536, 0, labels)
Clause22(sp, e, h, l) ==
    IF Res(sp, e.id) = Bitmap(h, l, Par(e).labels) THEN {}
    ELSE IF Res(sp, e.id) = Legacy22(h, l, Par(e).labels) THEN {"C13.Bitmap22Precedence:" \o e.id}
    ELSE {"C13.Bitmap:" \o e.id}

\* two-word bitmap: Integer sensors at the high and the low address
IntAt(sp, tab, a) == {j \in 1..Len(tab) : tab[j].ty = "Integer" /\ tab[j].addr = a /\ TabLast[sp.tab][j]}
JudgeBitmap22(sp, tab, e) ==
    IF ~Has(sp, e.id) THEN {}
    ELSE LET hs == IntAt(sp, tab, e.addr) ls == IntAt(sp, tab, e.addrL) IN
         IF hs = {} \/ ls = {} THEN
              \* no code sensors listed: judge against the bytes
              LET hb == BytesAt(sp, e.addr, 2) lb == BytesAt(sp, e.addrL, 2) IN
              IF hb = <<>> \/ lb = <<>> THEN {}
              ELSE Clause22(sp, e, IF AllFF(hb) THEN 0 ELSE W(hb, 1), IF AllFF(lb) THEN 0 ELSE W(lb, 1))
         ELSE LET h == tab[CHOOSE j \in hs : TRUE] l == tab[CHOOSE j \in ls : TRUE] IN
              IF ~Has(sp, h.id) \/ ~Has(sp, l.id) THEN {}
              ELSE Clause22(sp, e, SmallInt(Res(sp, h.id)), SmallInt(Res(sp, l.id)))

(***************************************************************************)
(* computed sensors (C13), by family and id                                *)
(***************************************************************************)
\* unsigned 16/32 bit register value with the 'not available' pattern read as 0
U16z(sp, a) == LET b == BytesAt(sp, a, 2) IN IF b = <<>> THEN -1 ELSE IF AllFF(b) THEN 0 ELSE W(b, 1)
S16at(sp, a) == LET b == BytesAt(sp, a, 2) IN S16(W(b, 1))
U32z(sp, a) == LET b == BytesAt(sp, a, 4) IN IF AllFF(b) THEN SN(FALSE, <<0>>) ELSE SN(FALSE, Words(b))
S32at(sp, a) == LET b == BytesAt(sp, a, 4) IN
                IF b[1] >= 128 THEN SN(TRUE, Neg2c(Words(b))) ELSE SN(FALSE, Words(b))
\* raw value from the result when the sensor is listed, else from the bytes
NumOr(sp, id, alt) == IF Has(sp, id) /\ Res(sp, id).k = "num" THEN SOfVal(Res(sp, id))
                      ELSE IF Has(sp, id) /\ Res(sp, id).k = "none" THEN SN(FALSE, <<0>>) ELSE alt

\* round(v * i) for v = a/10, i = b/10: the set of admissible results (ties: either neighbour)
RoundProd(a, b) ==
    LET q == a * (b \div 100) + (a * (b % 100)) \div 100
        r == (a * (b % 100)) % 100
    IN IF r < 50 THEN {q} ELSE IF r > 50 THEN {q + 1} ELSE {q, q + 1}
\* tenths of a volt / ampere of a listed Voltage/Current sensor, else from the bytes
Tenths(sp, id, a) == IF Has(sp, id) /\ Res(sp, id).k = "num" /\ Len(Res(sp, id).a) = 3
                     THEN Res(sp, id).a[3] * (10 \div Res(sp, id).a[1]) ELSE U16z(sp, a)

Int2(n) == Num(1, n < 0, <<(IF n < 0 THEN -n ELSE n) \div 65536, (IF n < 0 THEN -n ELSE n) % 65536>>)
IsInt(sp, id, NS) == Has(sp, id) => (Res(sp, id).k = "num" /\ \E n \in NS : ValEq(Res(sp, id), Int2(n)))
IsS(sp, id, x) == Has(sp, id) => ValEq(Res(sp, id), ValOfS(x))

GridMode(v) == IF v < -90 THEN 2 ELSE IF v >= 90 THEN 1 ELSE 0

SetSum2(A, B) == {x + y : x \in A, y \in B}

DerivedET(sp) ==
    LET p1 == NumOr(sp, "ppv1", U32z(sp, 35105)) p2 == NumOr(sp, "ppv2", U32z(sp, 35109))
        p3 == NumOr(sp, "ppv3", U32z(sp, 35113)) p4 == NumOr(sp, "ppv4", U32z(sp, 35117))
        ppv == SAdd(SAdd(p1, p2), SAdd(p3, p4))
        pbat == NumOr(sp, "pbattery1", S32at(sp, 35182))
        act == IF Has(sp, "active_power") /\ Res(sp, "active_power").k = "num" THEN SmallInt(Res(sp, "active_power"))
               ELSE S16at(sp, 35140)
        house == SAdd(SAdd(ppv, pbat), SNeg(SInt(act)))
    IN IF Covering(sp, 35105) = {} THEN {}
       ELSE (IF IsS(sp, "ppv", ppv) THEN {} ELSE {"C13.Derived:ppv"})
            \cup (IF IsS(sp, "house_consumption", house) THEN {} ELSE {"C13.Derived:house_consumption"})
            \cup (IF IsInt(sp, "grid_in_out", {GridMode(act)}) THEN {} ELSE {"C13.Derived:grid_in_out"})

DerivedDT(sp) ==
    IF Covering(sp, 30103) = {} THEN {}
    ELSE
    LET P(vid, va, iid, ia) == RoundProd(Tenths(sp, vid, va), Tenths(sp, iid, ia))
        s1 == P("vpv1", 30103, "ipv1", 30104) s2 == P("vpv2", 30105, "ipv2", 30106) s3 == P("vpv3", 30107, "ipv3", 30108)
    IN (IF IsInt(sp, "ppv1", s1) THEN {} ELSE {"C13.Derived:ppv1"})
       \cup (IF IsInt(sp, "ppv2", s2) THEN {} ELSE {"C13.Derived:ppv2"})
       \cup (IF IsInt(sp, "ppv3", s3) THEN {} ELSE {"C13.Derived:ppv3"})
       \cup (IF IsInt(sp, "ppv", SetSum2(SetSum2(s1, s2), s3)) THEN {} ELSE {"C13.Derived:ppv"})
       \cup (IF IsInt(sp, "pgrid1", P("vgrid1", 30118, "igrid1", 30121)) THEN {} ELSE {"C13.Derived:pgrid1"})
       \cup (IF IsInt(sp, "pgrid2", P("vgrid2", 30119, "igrid2", 30122)) THEN {} ELSE {"C13.Derived:pgrid2"})
       \cup (IF IsInt(sp, "pgrid3", P("vgrid3", 30120, "igrid3", 30123)) THEN {} ELSE {"C13.Derived:pgrid3"})

S8at(sp, a) == S8(BytesAt(sp, a, 1)[1])
Abs(n) == IF n < 0 THEN -n ELSE n
DerivedES(sp) ==
    IF Covering(sp, 0) = {} \/ Len(sp.resp[1].pl) < 93 THEN {}
    ELSE
    LET s1 == RoundProd(Tenths(sp, "vpv1", 0), Tenths(sp, "ipv1", 2))
        s2 == RoundProd(Tenths(sp, "vpv2", 5), Tenths(sp, "ipv2", 7))
        bsign == IF S8at(sp, 30) = 3 THEN -1 ELSE 1
        pb == {bsign * x : x \in RoundProd(Tenths(sp, "vbattery1", 10), U16z(sp, 18))}
        gsign == IF S8at(sp, 80) = 2 THEN -1 ELSE 1
        pg == gsign * Abs(S16at(sp, 38))
        ib == Num(10, bsign = -1, <<U16z(sp, 18)>>)
    IN (IF IsInt(sp, "ppv1", s1) THEN {} ELSE {"C13.Derived:ppv1"})
       \cup (IF IsInt(sp, "ppv2", s2) THEN {} ELSE {"C13.Derived:ppv2"})
       \cup (IF IsInt(sp, "ppv", SetSum2(s1, s2)) THEN {} ELSE {"C13.Derived:ppv"})
       \cup (IF IsInt(sp, "pbattery1", pb) THEN {} ELSE {"C13.Derived:pbattery1"})
       \cup (IF Has(sp, "ibattery1") => ValEq(Res(sp, "ibattery1"), ib) THEN {} ELSE {"C13.Derived:ibattery1"})
       \cup (IF IsInt(sp, "pgrid", {pg}) THEN {} ELSE {"C13.Derived:pgrid"})
       \cup (IF IsInt(sp, "plant_power", {U16z(sp, 47) + U16z(sp, 81)}) THEN {} ELSE {"C13.Derived:plant_power"})
       \cup (IF IsInt(sp, "house_consumption", {x - pg : x \in SetSum2(SetSum2(s1, s2), pb)}) THEN {}
             ELSE {"C13.Derived:house_consumption"})

DerivedESSettings(sp) ==
    IF Covering(sp, 32) = {} \/ BytesAt(sp, 32, 2) = <<>> THEN {}
    ELSE IF IsInt(sp, "dod", {100 - U16z(sp, 32)}) THEN {} ELSE {"C13.Derived:dod"}

JudgeDerived(sp) ==
    CASE sp.fam = "ET" /\ sp.api = "runtime" -> DerivedET(sp)
      [] sp.fam = "DT" /\ sp.api = "runtime" -> DerivedDT(sp)
      [] sp.fam = "ES" /\ sp.api = "runtime" -> DerivedES(sp)
      [] sp.fam = "ES" /\ sp.api = "settings" -> DerivedESSettings(sp)
      [] OTHER -> {}

\* grid_in_out_label follows grid_in_out
JudgeCalcLabel(sp, tab, e) ==
    IF e.id = "grid_in_out_label" /\ Has(sp, e.id) /\ Has(sp, "grid_in_out") /\ Res(sp, "grid_in_out").k = "num"
    THEN IF Res(sp, e.id) = Lookup(Par(e).labels, SmallInt(Res(sp, "grid_in_out"))) THEN {} ELSE {"C13.Label:" \o e.id}
    ELSE {}

(***************************************************************************)
(* a whole span                                                            *)
(***************************************************************************)
JudgeBulk(sp) ==
    LET tab == Tables[sp.tab]
        ids == {tab[k].id : k \in 1..Len(tab)}
    IN IF ~sp.ok THEN (IF sp.full THEN {"C11.Total"} ELSE {})
       ELSE (IF DOMAIN sp.res = ids THEN {} ELSE {"C11.AllKeys"})
            \cup UNION {
                   IF ~TabLast[sp.tab][k] THEN {}
                   ELSE LET e == tab[k] IN
                        CASE e.ty \in LabelTypes -> JudgeRaw(sp, e) \cup JudgeLabel(sp, tab, e)
                          [] e.ty = "EnumBitmap4" -> JudgeRaw(sp, e) \cup JudgeBitmap4(sp, tab, e)
                          [] e.ty = "EnumBitmap22" -> JudgeBitmap22(sp, tab, e)
                          [] e.ty = "EnumCalculated" -> JudgeCalcLabel(sp, tab, e)
                          [] e.ty \in RawTypes -> JudgeRaw(sp, e)
                          [] OTHER -> {}
                   : k \in 1..Len(tab)}
            \cup JudgeDerived(sp)

\* a single-value call: read_sensor / read_setting of entry sp.entry (a table index); result in sp.res under its id
JudgeSingle(sp) ==
    LET e == Tables[sp.tab][sp.entry]
        b == Own(sp, e) IN
    IF e.ty \notin RawTypes \/ b = <<>> THEN {}
    ELSE LET want == Decode(e.ty, Par(e), b) IN
         IF want.k = "undecided" THEN {"INFO.undecided"}
         ELSE IF sp.ok THEN (IF ValEq(want, Res(sp, e.id)) THEN {}
                             ELSE IF want.k = "none" THEN {"C11.UndecodableIsNone:" \o e.id} ELSE {"C12.Value:" \o e.id})
         ELSE IF sp.exc = "ValueError" THEN (IF want.k = "none" THEN {} ELSE {"C12.Value:" \o e.id})
         ELSE {"C11.Total:" \o e.id}

\* The window of every response is taken from the wire: the request is decoded by Wire!ParseRequest, the payload
\* is what Wire!Payload says a read answer carries (AA55 blocks: plain byte offsets from 0).
RespInfo(sp) ==
    [k \in 1..Len(sp.resp) |->
       LET r == sp.resp[k]
           rq == Fr(r.req)
           an == IF r.ans = 0 THEN <<>> ELSE Fr(r.ans)
           p == Wr!ParseRequest(r.fr, rq)
       IN IF ~p.ok THEN [first |-> 0, count |-> 0, unit |-> 2, p |-> 0, pl |-> <<>>]
          ELSE IF r.fr = "aa55" /\ p.op = "raw"
               THEN LET pl == Wr!Sub(an, 8, Len(an) - 2) IN [first |-> 0, count |-> Len(pl), unit |-> 1, p |-> 0, pl |-> pl]
          ELSE IF p.op # "read" THEN [first |-> 0, count |-> 0, unit |-> 2, p |-> 0, pl |-> <<>>]
          ELSE LET cmd == [fr |-> r.fr, op |-> "read", addr |-> p.addr, reg |-> p.reg, n |-> p.n, rt |-> -1]
                   pl == IF r.fr = "aa55" THEN Wr!Sub(an, 8, Len(an) - 2)
                         ELSE IF Len(an) >= Wr!Expected(cmd, an) THEN Wr!Payload(cmd, an) ELSE <<>>
               IN [first |-> p.reg, count |-> p.n, unit |-> 2, p |-> 0, pl |-> pl]]

(***************************************************************************)
(* API-level clauses (C14 C15 C16 C18) on the same spans                   *)
(***************************************************************************)
\* C14: every value reported for a listed sensor was decoded from bytes that were actually fetched
NeedsBytes(e) == IF e.ty = "EnumBitmap22" THEN 2 ELSE Size(e.ty)
\* no answer of this call holds the registers the definition names
Outside(sp, e) ==
    NeedsBytes(e) > 0 /\ ~(Holding(sp, e.addr, NeedsBytes(e)) # {} /\ (e.ty = "EnumBitmap22" => Holding(sp, e.addrL, 2) # {}))
WindowOf(sp, t, k) ==
    LET e == Tables[t][k] IN
    IF ~TabLast[t][k] \/ ~Has(sp, e.id) \/ NeedsBytes(e) = 0 THEN {}
    ELSE IF ~Outside(sp, e) THEN {}
    ELSE {"C14.Window:" \o e.id}
JudgeWindow(sp) ==
    IF ~sp.modbus \/ ~sp.ok THEN {}
    \* a single read reports one value: the answers of this call must hold that sensor's registers
    ELSE IF sp.single THEN (IF sp.entry = 0 THEN {} ELSE WindowOf(sp, sp.tab, sp.entry))
    ELSE LET tab == Tables[sp.tab]
             ids == {tab[k].id : k \in 1..Len(tab)} IN
         UNION {WindowOf(sp, sp.tab, k) : k \in 1..Len(tab)}
         \* a value reported under an id that is no longer listed after the call (its block was refused in this very call)
         \* is judged with the definition that was listed when the call was made
         \cup (IF sp.tab0 = 0 THEN {}
               ELSE UNION {IF Tables[sp.tab0][k].id \in ids THEN {} ELSE WindowOf(sp, sp.tab0, k) : k \in 1..Len(Tables[sp.tab0])})

\* C14: what the decoders of a Modbus family take out of an accepted answer lies inside it (observed at ProtocolResponse.read:
\* sp.short lists the reads for which fewer bytes were there than asked for - also those of computed sensors, whose
\* definitions name their registers only in code).  A listed sensor of the known findings reaching outside its window is
\* reported by C14.Window with its id; the read itself is attributed to it here.
JudgeTouch(sp) ==
    IF ~sp.modbus \/ ~sp.ok THEN {}
    ELSE LET tab == IF sp.tab = 0 THEN <<>> ELSE Tables[sp.tab]
             Owner(t) == {k \in 1..Len(tab) : tab[k].size > 0 /\ tab[k].addr <= t.a /\ t.a < tab[k].addr + (tab[k].size + 1) \div 2}
             \* owners whose declared registers already fail C14.Window: the same defect, reported there under the sensor's id
             Reported(t) == \E k \in Owner(t) : Outside(sp, tab[k]) IN
         UNION {IF Reported(sp.short[i]) THEN {}
                ELSE IF Owner(sp.short[i]) = {} THEN {"C14.ReadPastEnd:" \o ToString(sp.short[i].a)}
                ELSE {"C14.ReadPastEnd:" \o tab[CHOOSE k \in Owner(sp.short[i]) : TRUE].id} : i \in 1..Len(sp.short)}

\* C15: keys of the result = ids of sensors() right after the call; success no later than the second call
JudgeKeys(sp) ==
    IF sp.api # "runtime" THEN {}
    ELSE IF ~sp.ok THEN (IF sp.prevFailed THEN {"C15.SecondCall"} ELSE {})
    ELSE LET ids == {Tables[sp.tab][k].id : k \in 1..Len(Tables[sp.tab])} IN
         IF DOMAIN sp.res = ids THEN {} ELSE {"C15.KeysEqSensors"}

\* C18: monitoring calls transmit read requests only; setters with invalid arguments transmit no write
Writes(sp0) == {k \in 1..Len(sp0.resp) : Wr!IsWriteRequest(sp0.resp[k].fr, Fr(sp0.resp[k].req))}
JudgeReadOnly(sp0) ==
    (IF sp0.ro /\ Writes(sp0) # {} THEN {"C18.ReadOnly:" \o sp0.call} ELSE {})
    \cup (IF sp0.guard /\ Writes(sp0) # {} THEN {"C18.GuardFirst:" \o sp0.call} ELSE {})
    \cup (IF sp0.guard /\ sp0.documented /\ ~(~sp0.ok /\ sp0.exc = "ValueError") THEN {"C18.ValueError:" \o sp0.call} ELSE {})

\* C16: read_sensor(id) of a listed id: the bulk value, or ValueError where the bulk value is None
JudgeSameAsBulk(sp) ==
    \* a listed id for which the preceding bulk read of the same registers reported nothing at all: there is no value the
    \* single read could agree with
    IF sp.single /\ sp.bulkmiss THEN {"C16.ListedNotInBulk:" \o Tables[sp.tab][sp.entry].id}
    ELSE IF ~sp.single \/ sp.bulk.k = "absent" THEN {}
    ELSE LET e == Tables[sp.tab][sp.entry] IN
         IF sp.ok THEN (IF sp.bulk.k = "coarse" \/ sp.res[e.id].k = "coarse" \/ ValEq(sp.bulk, sp.res[e.id]) THEN {}
                        ELSE {"C16.SameAsBulk:" \o e.id})
         ELSE IF sp.exc = "ValueError" /\ ~sp.unknown THEN (IF sp.bulk.k = "none" THEN {} ELSE {"C16.SameAsBulk:" \o e.id})
         ELSE IF sp.failed THEN {}                      \* the request itself failed: nothing to compare
         ELSE {"C16.Resolvable:" \o e.id}

(***************************************************************************)
(* C17: write_setting(id, v): one write, to the setting's own registers,   *)
(* carrying the encoding of v; the value read back afterwards is v         *)
(***************************************************************************)
WriteData(p) == IF p.op = "write" THEN <<p.n \div 256, p.n % 256>> ELSE p.payload
JudgeWrite(sp0, sp) ==
    IF sp0.api # "write_setting" \/ sp0.entry = 0 \/ ~sp0.ok THEN {}
    ELSE LET e == Tables[sp0.tab][sp0.entry]
             old == IF Size(e.ty) = 1 \/ e.ty = "ByteL" THEN BytesAt(sp, e.addr, 2) ELSE <<>>
             enc == Encode(e.ty, Par(e), sp0.wval, old)
             ws == Writes(sp0)
         IN IF enc = <<>> THEN {"INFO.notencodable"}
            ELSE IF Cardinality(ws) # 1 THEN {"C17.OneWrite:" \o e.id}
            ELSE LET r == sp0.resp[CHOOSE k \in ws : TRUE]
                     p == Wr!ParseRequest(r.fr, Fr(r.req))
                 IN (IF p.reg = e.addr /\ Len(WriteData(p)) = Len(enc) THEN {} ELSE {"C17.Address:" \o e.id})
                    \cup (IF WriteData(p) = enc THEN {} ELSE {"C17.Encoding:" \o e.id})
                    \cup (IF sp0.rb.k = "absent" THEN {}
                          ELSE IF Decode(e.ty, Par(e), enc).k = "undecided" THEN {}
                          ELSE IF ValEq(Decode(e.ty, Par(e), enc), sp0.rb) THEN {} ELSE {"C17.ReadBack:" \o e.id})

Judge(sp0) ==
    LET sp == [sp0 EXCEPT !.resp = RespInfo(sp0)] IN
    JudgeWrite(sp0, sp) \cup
    (IF sp.decode THEN (IF sp.single THEN JudgeSingle(sp) ELSE JudgeBulk(sp)) ELSE {})
    \cup JudgeWindow(sp) \cup JudgeKeys(sp) \cup JudgeReadOnly(sp0) \cup JudgeSameAsBulk(sp) \cup JudgeOverlap(sp) \cup JudgeSize(sp) \cup JudgeTouch(sp)

VARIABLES sid, done
vars == <<sid, done>>
Init == sid \in 1..N /\ done = FALSE
Next == /\ ~done
        /\ PrintT("VERDICT|" \o ToString(sid) \o "|" \o ToString({<<v, 1>> : v \in Judge(Spans[sid])}))
        /\ done' = TRUE
        /\ UNCHANGED sid
Spec == Init /\ [][Next]_vars
=============================================================================
