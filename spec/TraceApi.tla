------------------------------ MODULE TraceApi ------------------------------
(***************************************************************************)
(* API-level clauses of C09 and C05 on executions of the Inverter classes   *)
(* and of goodwe.connect / discover / search_inverters.                    *)
(*                                                                         *)
(* hist   a sequence of public calls on ONE inverter object, each with its *)
(*        intended fate on the simulated network (S answered, F never      *)
(*        answered, R refused with a Modbus exception) and what the call   *)
(*        did: ok / exception family / consecutive_failures_count.         *)
(*        The counter is the state machine                                 *)
(*            fails' = 0 after S, fails + 1 after F                        *)
(*        (a refusal is not a success, so it never resets the streak; the  *)
(*        statement does not say whether it counts as a failed request,    *)
(*        both readings are accepted).                                     *)
(* call   one public call under some network fault / odd identification    *)
(*        payload: it may only end ok or with an InverterError.            *)
(* entry  an entry point (connect / discover / search_inverters) on a      *)
(*        silent network with the (timeout, retries) it was given: every   *)
(*        probe = maximal run of identical transmissions must be exactly   *)
(*        retries + 1 transmissions spaced one timeout apart.              *)
(***************************************************************************)
EXTENDS Integers, Sequences, FiniteSets, TLC, Json, IOUtils

Batch == JsonDeserialize(IOEnv.VERIF_BATCH)
Cases == Batch.cases
N == Len(Cases)

\* C09 on one call record
Family(c) == IF c.ok \/ c.fam THEN {} ELSE {"C09.Family:" \o c.exc}

RECURSIVE Counter(_, _, _, _)
\* lo = failed requests since the last success; hi = failed or refused requests since the last success (the statement
\* does not say whether a refusal counts as a failed request; it certainly is not a success, so it never resets)
Counter(h, k, hi, lo) ==
    IF k > Len(h) THEN {}
    ELSE LET c == h[k] IN
         CASE c.kind = "S" -> (IF c.ok THEN {} ELSE {"C09.UnexpectedFailure"}) \cup Counter(h, k + 1, 0, 0)
           \* the simulated inverter refuses with exception code 2: the caller of the inverter API must see
           \* RequestRejectedException carrying that reason (C08 speaks about what surfaces, not only about the protocol layer)
           [] c.kind = "R" -> (IF ~c.ok /\ c.rejected THEN {} ELSE {"C09.RejectedKind", "C08.SurfacesRejected"})
                              \cup (IF ~c.ok /\ c.rejected /\ c.msg # "ILLEGAL DATA ADDRESS" THEN {"C08.SurfacesRejected"} ELSE {})
                              \cup Family(c) \cup Counter(h, k + 1, hi + 1, lo)
           [] c.kind \in {"F", "E"} -> (IF ~c.ok /\ c.failed THEN {} ELSE {"C09.FailedKind"}) \cup Family(c)
                              \cup (IF c.failed /\ (c.cfc < lo + 1 \/ c.cfc > hi + 1) THEN {"C09.Counter"} ELSE {})
                              \cup Counter(h, k + 1, hi + 1, lo + 1)

JudgeHist(c) == Counter(c.hist, 1, 0, 0)
JudgeCall(c) == Family(c) \cup (IF c.unhandled THEN {"C09.NoUnhandled"} ELSE {})

\* maximal runs of identical transmissions; a run is silent when none of its transmissions was answered
RECURSIVE Runs(_, _)
Runs(s, k) ==          \* s: sequence of [t, f, a]; result: sequence of [ts |-> times, silent |-> BOOLEAN]
    IF k > Len(s) THEN <<>>
    ELSE LET same == {j \in k..Len(s) : \A i \in k..j : s[i].f = s[k].f}
             e == CHOOSE j \in same : \A x \in same : x <= j
         IN <<[ts |-> [i \in 1..(e - k + 1) |-> s[k + i - 1].t], silent |-> \A i \in k..e : ~s[i].a]>> \o Runs(s, e + 1)

JudgeEntry(c) ==
    LET rs == Runs(c.sends, 1)
        sil == {i \in 1..Len(rs) : rs[i].silent} IN
    (IF \A i \in sil : Len(rs[i].ts) = c.retries + 1 THEN {} ELSE {"C05.EntryRetries"})
    \cup (IF \A i \in sil : \A j \in 1..(Len(rs[i].ts) - 1) : rs[i].ts[j + 1] - rs[i].ts[j] = c.T THEN {} ELSE {"C05.EntryTimeout"})
    \cup (IF Len(rs) > 0 /\ rs[Len(rs)].silent /\ c.endT # rs[Len(rs)].ts[Len(rs[Len(rs)].ts)] + c.T
          THEN {"C05.EntryTimeout"} ELSE {})
    \cup (IF Len(rs) = 0 THEN {"C05.EntryRetries"} ELSE {})
    \cup Family(c)

\* C10 on inverter objects whose keep-alive was chosen through set_keep_alive(): steps = [ok, open, tr, o, ka] after each call
\* (o = the object that made the call, ka = its setting, open = open transports that were opened during calls of o,
\* worst = the largest number of transports one object ever had open)
NextOf(c, k) == LET later == {j \in (k + 1)..Len(c.steps) : c.steps[j].o = c.steps[k].o} IN
                IF later = {} THEN 0 ELSE CHOOSE j \in later : \A x \in later : j <= x
JudgeLife(c) ==
    (IF c.worst > 1 THEN {"C10.OneTransport"} ELSE {})
    \cup (IF \E k \in 1..Len(c.steps) : ~c.steps[k].ka /\ c.steps[k].open # 0 THEN {"C10.NoLeak"} ELSE {})
    \cup (IF \E k \in 1..Len(c.steps) : LET j == NextOf(c, k) IN
                j # 0 /\ c.steps[k].ka /\ c.steps[k].ok /\ c.steps[j].ok /\ c.steps[k].tr # c.steps[j].tr
          THEN {"C10.Reuse"} ELSE {})

\* C06 on ONE inverter object used by several tasks at once (whatever the object does with its protocol object in between).
\* The library serialises per ATTEMPT (between two attempts of a request the lock is released and queued callers get their turn):
\* a transmission is "open" until the network reacted to it (an answer / error was delivered) or one timeout has passed.
\* wins = per pair of consecutive transmissions of the object [s, e]: s = ticks between them, e = 1 when the network reacted to
\* the first before the second was made; no transmission is made while the previous one is still open.
\* vals = per answered call [got, want]: the value it returned is the content of the register IT asked for
JudgeMutex(c) ==
    (IF \E i \in 1..Len(c.wins) : c.wins[i].e = 0 /\ c.wins[i].s < c.T THEN {"C06.ObjectMutex"} ELSE {})
    \cup (IF \E i \in 1..Len(c.vals) : c.vals[i].got # c.vals[i].want THEN {"C06.ObjectOwnAnswer"} ELSE {})

Judge(c) == CASE c.case = "mutex" -> JudgeMutex(c) [] c.case = "hist" -> JudgeHist(c) [] c.case = "call" -> JudgeCall(c) [] c.case = "entry" -> JudgeEntry(c)
              [] c.case = "life" -> JudgeLife(c)

VARIABLES cid, done
Init == cid \in 1..N /\ done = FALSE
Next == /\ ~done
        /\ PrintT("VERDICT|" \o ToString(cid) \o "|" \o ToString({<<v, 1>> : v \in Judge(Cases[cid])}))
        /\ done' = TRUE
        /\ UNCHANGED cid
Spec == Init /\ [][Next]_<<cid, done>>
=============================================================================
