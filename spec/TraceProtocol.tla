--------------------------- MODULE TraceProtocol ---------------------------
(***************************************************************************)
(* Judges executions of the real transport layer (UdpInverterProtocol /    *)
(* TcpInverterProtocol / ProtocolCommand.execute) recorded at the asyncio  *)
(* boundary by harness/proto_driver.py, with the clauses of ProtoMonitor   *)
(* instantiated on concrete byte strings through Wire.tla.                 *)
(*                                                                         *)
(* One TLC run judges a whole batch: the batch file holds a table of the   *)
(* distinct byte strings (Frames) and a list of traces; `tid` is chosen in *)
(* the initial state, each trace is a linear chain of states, the verdict  *)
(* (set of <<clause, event index>>) is printed at the end of the chain.    *)
(***************************************************************************)
EXTENDS Integers, Sequences, FiniteSets, TLC, Json, IOUtils, Wire

Batch  == JsonDeserialize(IOEnv.VERIF_BATCH)
Frames == Batch.frames
Traces == Batch.traces
N      == Len(Traces)

Fr(f) == Frames[f]

ReqBytes(cmd, tx) ==
    IF cmd.op = "raw" THEN Aa55Req(cmd.payload) ELSE RequestOf(cmd, tx, cmd.payload)

CMust(cmd, f) == Allowed(cmd, Fr(f))
CReqMatch(cmd, f) ==
    LET b == Fr(f) IN
    IF cmd.fr = "tcp" THEN Len(b) >= 2 /\ b = ReqBytes(cmd, BE16(b[1], b[2]))
    ELSE b = ReqBytes(cmd, 0)
CTxId(cmd, f) == LET b == Fr(f) IN IF cmd.fr = "tcp" /\ Len(b) >= 2 THEN BE16(b[1], b[2]) ELSE -1
CCompletes(cmd, h, g) ==
    /\ Len(Fr(g)) = Expected(cmd, Fr(h)) - Len(Fr(h))
    /\ WellFormed(cmd, Fr(h) \o Fr(g))
CIsData(d, fs) == Fr(d) = (IF Len(fs) = 1 THEN Fr(fs[1]) ELSE Fr(fs[1]) \o Fr(fs[2]))
CWF(cmd, d) == WellFormed(cmd, Fr(d))
\* the payload clause is judged for frames without trailing bytes (see DESIGN.md, C02)
CPayloadOk(cmd, d, p) ==
    (WellFormed(cmd, Fr(d)) /\ cmd.op = "read" /\ Len(Fr(d)) = Expected(cmd, Fr(d))) => Fr(p) = Payload(cmd, Fr(d))
TagPayload(cmd) == [k \in 1..(2 * cmd.n) |-> IF k % 2 = 1 THEN Hi(cmd.reg) ELSE Lo(cmd.reg)]
COwnTag(cmd, d) ==
    (cmd.op = "read" /\ cmd.fr # "aa55" /\ WellFormed(cmd, Fr(d))) => Payload(cmd, Fr(d)) = TagPayload(cmd)

Mon == INSTANCE ProtoMonitor WITH
         Must <- CMust, ReqMatch <- CReqMatch, TxId <- CTxId, Completes <- CCompletes, IsData <- CIsData,
         WF <- CWF, PayloadOk <- CPayloadOk, OwnTag <- COwnTag, ReasonOk <- ReasonOk, NoFrame <- 0

VARIABLES tid, i, m, viol
vars == <<tid, i, m, viol>>

Init == /\ tid \in 1..N
        /\ i = 1
        /\ m = Mon!InitM(Len(Traces[tid].meta.cmds))
        /\ viol = {}

Next ==
    LET tr == Traces[tid] IN
    /\ i <= Len(tr.ev)
    /\ LET x == Mon!Step(m, tr.ev[i], tr.meta)
           v2 == viol \cup {<<c, i>> : c \in x.v}
       IN /\ m' = x.m
          /\ viol' = v2
          /\ (i = Len(tr.ev) => PrintT("VERDICT|" \o ToString(tid) \o "|" \o ToString(v2)))
    /\ i' = i + 1
    /\ UNCHANGED tid

Spec == Init /\ [][Next]_vars
=============================================================================
