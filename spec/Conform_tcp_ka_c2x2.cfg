SPECIFICATION CSpec
CHECK_DEADLOCK FALSE
CONSTANTS
  Kind = "tcp"
  KeepAlive = TRUE
  Retries = 1
  T = 4
  CT = 40
  NCallers = 2
  NReq = 2
  Faults <- FaultsFull
  ConnOuts = {"ok"}
  MaxConnFail = 99
  Offsets = {0}
  Gaps = {0, 2}
  Strict = TRUE
  Horizon = 4000
  Fx <- FxAll
  Assume = TRUE
  CancelAts = {}
INVARIANT CNoViolation
