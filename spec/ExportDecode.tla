---------------------------- MODULE ExportDecode ----------------------------
(***************************************************************************)
(* Spec -> code: TLC evaluates Decode for a complete sweep of one 16-bit   *)
(* word inside a sensor's own bytes and writes the table; the harness      *)
(* plants every word into responses decoded by the real classes and        *)
(* compares.  Jobs come from the harness (type name, scale, label table    *)
(* exported from the live classes, base bytes, position of the word).      *)
(* One job per initial state; each writes its own file.                    *)
(***************************************************************************)
EXTENDS Decode, Json, IOUtils

In == JsonDeserialize(IOEnv.VERIF_JOBS)
Jobs == In.jobs
Labels == In.labels

Plant(base, pos, w) == [i \in 1..Len(base) |-> IF i = pos THEN w \div 256 ELSE IF i = pos + 1 THEN w % 256 ELSE base[i]]

Table(j) ==
    LET par == [scale |-> j.scale, labels |-> IF j.lab = 0 THEN <<>> ELSE Labels[j.lab]]
    IN [w \in 1..65536 |-> Decode(j.ty, par, Plant(j.base, j.pos, w - 1))]

VARIABLES jid, done
Init == jid \in 1..Len(Jobs) /\ done = FALSE
Next == /\ ~done
        /\ JsonSerialize(Jobs[jid].out, Table(Jobs[jid]))
        /\ done' = TRUE
        /\ UNCHANGED jid
Spec == Init /\ [][Next]_<<jid, done>>
=============================================================================
