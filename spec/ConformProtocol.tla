-------------------------- MODULE ConformProtocol --------------------------
(***************************************************************************)
(* Conformance of the real transport layer to the design model             *)
(* (code -> spec, "let TLC infer what was not logged").                    *)
(*                                                                         *)
(* A script fixes every environment pick of a behaviour of Protocol.tla:   *)
(* the fault of each transmission of each request, the outcome of each     *)
(* connection attempt, the pause between requests.  The harness executed   *)
(* the same script on the real classes and recorded the observable events. *)
(* Here the model is run under the script and every event it emits must be *)
(* the next recorded one (kind, time, request / transport, class of the    *)
(* delivered frame, outcome).  Timer ties are the only nondeterminism      *)
(* left; a script conforms when SOME behaviour of the model reproduces the *)
(* whole recorded sequence.  A script that does not conform is DRIFT: the   *)
(* model no longer describes the code (or the other way round).            *)
(***************************************************************************)
EXTENDS Protocol, Json, IOUtils

Scripts == JsonDeserialize(IOEnv.VERIF_SCRIPTS)
VARIABLES pid, pos
cvars == <<vars, pid, pos>>

CInit == /\ pid \in 1..Len(Scripts)
         /\ pos = 1
         /\ now = 0 /\ ready = <<>> /\ batch = 0 /\ net = {}
         /\ s = InitS([c \in Callers |-> Scripts[pid].off[c]])
         /\ mon = Mon!InitM(NCallers * NReq)
         /\ viol = {}

Drop == [k |-> "drop", d |-> 0, d2 |-> 0, x |-> 0]
\* the fault of the next transmission of caller c's current request (requests are numbered caller-major)
PickFault(sc, st, c) ==
    LET r == Req(c, st.idx[c]) k == st.rtx[c] + 1 IN
    IF st.idx[c] >= 1 /\ r <= Len(sc.rf) /\ k <= Len(sc.rf[r]) THEN sc.rf[r][k] ELSE Drop
\* after idx was advanced inside the same step (request start): look at the request that is about to transmit
\* the user's cancellation of the request that is about to start (ticks after its CALL, 0 = none)
PickCancel(sc, st, c) ==
    LET r == Req(c, st.idx[c] + 1) IN IF st.idx[c] < NReq /\ r <= Len(sc.uc) THEN sc.uc[r] ELSE 0
PickConn(sc, st) == IF st.cfails + st.trn - 1 < Len(sc.conn) THEN sc.conn[st.cfails + st.trn] ELSE "ok"

Same(m, r) ==
    /\ m.e = r.e /\ m.t = r.t
    /\ (m.e \in {"CALL", "RET", "UCANCEL"} => m.r = r.r)
    /\ (m.e \in {"SEND", "DLV", "OPEN", "CLOSE", "PEERCLOSE", "ERR"} => m.tr = r.tr)
    /\ (m.e = "DLV" => m.f.what = r.what)
    /\ (m.e = "RET" => m.out = r.out)
    /\ (m.e \in {"CONN", "CONNFAIL"} => m.why = r.why)

Matches(evs, rec, p) ==
    /\ p + Len(evs) - 1 <= Len(rec)
    /\ \A i \in 1..Len(evs) : Same(evs[i], rec[p + i - 1])

\* a task step may start a request (idx advances) and transmit in one go: the fault index must be taken after the
\* request counter moved, so the step is computed for the fault of the current and of the next request and the
\* one that is consistent with the resulting state is kept
CRunOne ==
    /\ batch > 0
    /\ LET sc == Scripts[pid]
           cb == Head(ready)
           c == IF cb.k = "wake" THEN cb.c ELSE 1
           starts == cb.k = "wake" /\ s.pc[c] = "idle"
           stf == IF starts THEN [s EXCEPT !.idx[c] = @ + 1, !.rtx[c] = 0] ELSE s
           f == PickFault(sc, stf, c)
           o == PickConn(sc, s)
           \* the pause after the request caller c is finishing (per caller and request when the script gives `gaps`)
           g == IF Len(sc.gaps) >= c /\ s.idx[c] >= 1 /\ s.idx[c] <= Len(sc.gaps[c]) THEN sc.gaps[c][s.idx[c]] ELSE sc.gap
           X == Callback(X0(s), cb, f, o, g, PickCancel(sc, s, c))
       IN /\ Matches(X.ev, sc.ev, pos)
          /\ s' = X.s
          /\ ready' = Tail(ready) \o X.q
          /\ net' = net \cup X.net
          /\ LET y == Feed(mon, viol, X.ev) IN mon' = y.m /\ viol' = y.v
          /\ pos' = pos + Len(X.ev)
    /\ batch' = batch - 1
    /\ UNCHANGED <<now, pid>>

CFinished ==
    /\ Terminal
    /\ pos = Len(Scripts[pid].ev) /\ Scripts[pid].ev[pos].e = "END"
    /\ PrintT("CONF|" \o ToString(pid))
    /\ batch' = -1 /\ pos' = pos + 1
    /\ UNCHANGED <<now, ready, net, s, mon, viol, pid>>

CNext == CRunOne \/ (Iterate /\ UNCHANGED <<pid, pos>>) \/ CFinished
CSpec == CInit /\ [][CNext]_cvars
\* the design model must agree with the monitor on conforming executions too
CNoViolation == viol \subseteq Mon!ObsClauses
=============================================================================
