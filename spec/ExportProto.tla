---------------------------- MODULE ExportProto ----------------------------
(* Exports the fault alphabets of the design model so that the harness      *)
(* enumerates exactly the scripts the model was checked on (spec -> code).  *)
EXTENDS MC_Proto, Json, IOUtils, SequencesExt

ASSUME JsonSerialize(IOEnv.VERIF_OUT,
         [full   |-> SetToSeq(FaultsFull),
          assume |-> SetToSeq(FaultsAssume),
          hist   |-> SetToSeq(FaultsHist),
          cancel |-> SetToSeq(FaultsCancel),
          T      |-> 4])
=============================================================================
