------------------------------ MODULE MC_Proto ------------------------------
(* Bounded instances of Protocol.tla for exhaustive checking with TLC. *)
EXTENDS Protocol

F(k, d, d2, x) == [k |-> k, d |-> d, d2 |-> d2, x |-> x]

\* the full alphabet of C04 (delays in ticks; T = 4: 1 = prompt, 3 = late but in time, 4 = at the
\* timeout instant, 5 = after the timeout)
FaultsFull ==
    { F("drop", 0, 0, 0),
      F("ans", 1, 0, 0), F("ans", 3, 0, 0), F("ans", 4, 0, 0), F("ans", 5, 0, 0),
      F("garb", 1, 0, 0), F("dupg", 1, 0, 0),
      F("exc", 1, 0, 2),
      F("lone", 1, 0, 0),
      F("frag", 1, 2, "tail"), F("frag", 1, 1, "tail"), F("frag", 2, 6, "tail"),
      F("frag", 1, 2, "tailx"), F("frag", 1, 2, "tailc"),
      F("dup", 1, 0, 0), F("ansg", 1, 0, 0), F("gans", 1, 0, 0), F("dupx", 1, 0, 2), F("ansx", 1, 0, 2),
      F("pclose", 2, 0, 0), F("eof", 2, 0, 0),
      F("err", 2, 0, 101), F("err", 2, 0, 111), F("serr", 1, 0, 101) }

\* C06's assumption: each transmission is answered at most once and before its timeout
FaultsAssume ==
    { F("drop", 0, 0, 0), F("ans", 1, 0, 0), F("ans", 3, 0, 0), F("frag", 1, 2, "tail") }

\* a reduced alphabet for longer histories (C05, C10)
FaultsHist ==
    { F("drop", 0, 0, 0), F("ans", 1, 0, 0), F("garb", 1, 0, 0), F("exc", 1, 0, 2),
      F("pclose", 2, 0, 0), F("eof", 2, 0, 0), F("err", 2, 0, 101), F("serr", 1, 0, 101), F("frag", 1, 2, "tail"),
      F("lone", 1, 0, 0) }

\* alphabet for the instances with user cancellation
FaultsCancel ==
    { F("drop", 0, 0, 0), F("ans", 1, 0, 0), F("ans", 3, 0, 0), F("garb", 1, 0, 0), F("exc", 1, 0, 2),
      F("frag", 1, 2, "tail"), F("lone", 1, 0, 0), F("pclose", 2, 0, 0) }

FxAll == {"A", "B", "C", "D", "E", "F"}
FxNone == {}
FxNoF == {"A", "B", "C", "D", "E"}
=============================================================================
