SPECIFICATION Spec
CONSTANTS
  Addr = {0, 1, 2}
  Word = {0, 1}
  MaxCount = 2
CONSTRAINT Bound
INVARIANT TypeOK
INVARIANT ContentIsHistory
INVARIANT ReadAnswersContent
INVARIANT ReactionJustified
PROPERTY OnlyOwn
PROPERTY NoSideEffect
PROPERTY ReadBack
CHECK_DEADLOCK FALSE
