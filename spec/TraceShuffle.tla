---------------------------- MODULE TraceShuffle ----------------------------
(***************************************************************************)
(* C20: inverter objects are independent; returned values do not change.   *)
(*                                                                         *)
(* The statement is a trace property and is judged as such.  For two       *)
(* objects with call sequences s1, s2 the harness runs Solo(s1), Solo(s2)  *)
(* and an interleaving t; a case holds, for one object, the records of its *)
(* calls in the solo run and in t:                                         *)
(*    [api, reqs (transmitted frames), ok, val (canonical text of the      *)
(*     returned value / exception at return), val_end (the same object at  *)
(*     the end of the run)]                                                *)
(*   Independent  Proj(t, i) = Solo(s_i): same requests (apart from the    *)
(*                Modbus/TCP transaction id), same results                 *)
(*   Immutable    what was handed to the caller still has the content it   *)
(*                had when it was returned                                 *)
(***************************************************************************)
EXTENDS Integers, Sequences, FiniteSets, TLC, Json, IOUtils

Batch == JsonDeserialize(IOEnv.VERIF_BATCH)
Frames == Batch.frames
Cases == Batch.cases
N == Len(Cases)

\* a request without its Modbus/TCP transaction id
Mask(fr, f) == LET b == Frames[f] IN IF fr = "tcp" /\ Len(b) >= 2 THEN SubSeq(b, 3, Len(b)) ELSE b
Reqs(fr, c) == [k \in 1..Len(c.reqs) |-> Mask(fr, c.reqs[k])]

Judge(c) ==
    (IF Len(c.solo) # Len(c.tau) THEN {"C20.Independent:length"} ELSE
       UNION {IF Reqs(c.fr, c.solo[k]) = Reqs(c.fr, c.tau[k]) /\ c.solo[k].ok = c.tau[k].ok /\ c.solo[k].val = c.tau[k].val
              THEN {} ELSE {"C20.Independent:" \o c.tau[k].api} : k \in 1..Len(c.solo)})
    \cup UNION {IF c.tau[k].val = c.tau[k].val_end THEN {} ELSE {"C20.Immutable:" \o c.tau[k].api} : k \in 1..Len(c.tau)}
    \cup UNION {IF c.solo[k].val = c.solo[k].val_end THEN {} ELSE {"C20.Immutable:" \o c.solo[k].api} : k \in 1..Len(c.solo)}

VARIABLES cid, done
Init == cid \in 1..N /\ done = FALSE
Next == /\ ~done
        /\ PrintT("VERDICT|" \o ToString(cid) \o "|" \o ToString({<<v, 1>> : v \in Judge(Cases[cid])}))
        /\ done' = TRUE
        /\ UNCHANGED cid
Spec == Init /\ [][Next]_<<cid, done>>
=============================================================================
