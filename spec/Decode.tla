------------------------------- MODULE Decode -------------------------------
(***************************************************************************)
(* The documented reading of every sensor TYPE of goodwe/sensor.py as a    *)
(* function of the sensor's own bytes only (property C12), the values that *)
(* are "not available" (None, C11), the encoding of settable types (C17)   *)
(* and the definitions of derived sensors (C13).                           *)
(*                                                                         *)
(* Nothing here is a copy of a sensor table: tables (id, address, type     *)
(* name, scale, labels) are exported from the live classes at run time;    *)
(* this module only says what a type name MEANS.                           *)
(*                                                                         *)
(* Values.  TLC integers are 32 bit, so numbers are carried as             *)
(*   [k |-> "num", a |-> <<den, neg, limb_1, ..., limb_n>>, s |-> ""]      *)
(* = (-1)^neg * (big-endian base-65536 limbs) / den, limbs without leading *)
(* zeros (at least one).  Other shapes: "none", "str" (s), "dt" (a = y m d *)
(* h mi s), "eco" (a = fields, s = days "|" months).                       *)
(***************************************************************************)
EXTENDS Integers, Sequences, FiniteSets, TLC

Val(k, a, s) == [k |-> k, a |-> a, s |-> s]
NoneV == Val("none", <<>>, "")
Str(s) == Val("str", <<>>, s)

RECURSIVE Strip(_)
Strip(l) == IF Len(l) > 1 /\ l[1] = 0 THEN Strip(Tail(l)) ELSE l
IsZero(l) == \A i \in 1..Len(l) : l[i] = 0
Num(den, neg, l) == Val("num", <<den, IF neg /\ ~IsZero(l) THEN 1 ELSE 0>> \o Strip(l), "")

W(b, i) == b[i] * 256 + b[i + 1]            \* big-endian word starting at byte i
S8(x) == IF x >= 128 THEN x - 256 ELSE x
AllFF(b) == \A i \in 1..Len(b) : b[i] = 255

\* unsigned from words, signed (two's complement) from words
U(den, ws) == Num(den, FALSE, ws)
RECURSIVE Neg2c(_)
\* two's complement magnitude of a negative number given as words (most significant first)
Neg2c(ws) ==
    IF Len(ws) = 1 THEN <<(65536 - ws[1]) % 65536>>
    ELSE LET rest == Neg2c(Tail(ws))
             lowZero == IsZero(Tail(ws))
         IN <<IF lowZero THEN (65536 - ws[1]) % 65536 ELSE 65535 - ws[1]>> \o rest
S(den, ws) == IF ws[1] >= 32768 THEN Num(den, TRUE, Neg2c(ws)) ELSE Num(den, FALSE, ws)
SmallNum(n) == Num(1, n < 0, <<IF n < 0 THEN -n ELSE n>>)        \* small integers only (|n| < 65536)

Words(b) == [i \in 1..(Len(b) \div 2) |-> W(b, 2 * i - 1)]

(***************************************************************************)
(* equality of values: numbers are compared as rationals                   *)
(***************************************************************************)
\* limbs * c for a small constant c (<= 1000), least significant limb last
RECURSIVE MulRev(_, _, _)
MulRev(rl, c, carry) ==       \* rl: limbs least significant first
    IF rl = <<>> THEN (IF carry = 0 THEN <<>> ELSE <<carry % 65536>> \o MulRev(<<>>, c, carry \div 65536))
    ELSE LET p == rl[1] * c + carry IN <<p % 65536>> \o MulRev(Tail(rl), c, p \div 65536)
Rev(l) == [i \in 1..Len(l) |-> l[Len(l) + 1 - i]]
MulSmall(l, c) == Strip(Rev(MulRev(Rev(l), c, 0)))
Limbs(v) == SubSeq(v.a, 3, Len(v.a))
NumEq(x, y) ==
    LET lx == MulSmall(Limbs(x), y.a[1]) ly == MulSmall(Limbs(y), x.a[1]) IN
    /\ lx = ly
    /\ (x.a[2] = y.a[2] \/ IsZero(lx))
ValEq(x, y) == IF x.k = "num" /\ y.k = "num" THEN NumEq(x, y) ELSE x = y

(***************************************************************************)
(* calendar                                                                *)
(***************************************************************************)
Leap(y) == y % 4 = 0 /\ (y % 100 # 0 \/ y % 400 = 0)
DaysIn(y, m) == CASE m \in {1, 3, 5, 7, 8, 10, 12} -> 31
                  [] m \in {4, 6, 9, 11} -> 30
                  [] m = 2 -> IF Leap(y) THEN 29 ELSE 28
                  [] OTHER -> 0
Timestamp(b) ==
    LET y == 2000 + b[1] IN
    IF b[2] \in 1..12 /\ b[3] >= 1 /\ b[3] <= DaysIn(y, b[2]) /\ b[4] <= 23 /\ b[5] <= 59 /\ b[6] <= 59
    THEN Val("dt", <<y, b[2], b[3], b[4], b[5], b[6]>>, "")
    ELSE NoneV

(***************************************************************************)
(* labels: par.labels is a sequence of <<code, label>>                     *)
(***************************************************************************)
HasLabel(labels, c) == \E i \in 1..Len(labels) : labels[i][1] = c
LabelOf(labels, c) == labels[CHOOSE i \in 1..Len(labels) : labels[i][1] = c][2]
Lookup(labels, c) == IF HasLabel(labels, c) THEN Str(LabelOf(labels, c)) ELSE NoneV

Bit(w, i) == (w \div (2 ^ i)) % 2           \* w a 16 bit word, i in 0..15

\* the labels of the set bits in ascending bit order; unlabelled bits read err<i>; empty labels are skipped
RECURSIVE BitmapFrom(_, _, _, _)
BitmapFrom(lo, hi, labels, i) ==
    IF i = 32 THEN <<>>
    ELSE LET set == IF i < 16 THEN Bit(lo, i) = 1 ELSE Bit(hi, i - 16) = 1
             lab == IF HasLabel(labels, i) THEN LabelOf(labels, i) ELSE "err" \o ToString(i)
         IN (IF set /\ lab # "" THEN <<lab>> ELSE <<>>) \o BitmapFrom(lo, hi, labels, i + 1)
RECURSIVE Join(_, _)
Join(ss, sep) == IF ss = <<>> THEN "" ELSE IF Len(ss) = 1 THEN ss[1] ELSE ss[1] \o sep \o Join(Tail(ss), sep)
Bitmap(hi, lo, labels) == Str(Join(BitmapFrom(lo, hi, labels, 0), ", "))

(***************************************************************************)
(* schedule / eco-mode groups                                              *)
(***************************************************************************)
DayNames == <<"Sun", "Mon", "Tue", "Wed", "Thu", "Fri", "Sat">>
MonthNames == <<"Jan", "Feb", "Mar", "Apr", "May", "Jun", "Jul", "Aug", "Sep", "Oct", "Nov", "Dec">>
RECURSIVE NamesOf(_, _, _, _)
NamesOf(bits, names, i, n) ==
    IF i = n THEN <<>>
    ELSE (IF (bits \div (2 ^ i)) % 2 = 1 THEN <<names[i + 1]>> ELSE <<>>) \o NamesOf(bits, names, i + 1, n)
\* day byte (signed): -1 = every day, 0 = none, 1..127 = bit list.  A byte with the top bit set (other than
\* 0xFF) has no documented reading; the repository's own test data contains 0xFE read as "Mon", so the
\* specification leaves such groups undecided (any value or None, but never a foreign exception).
DaysOk(d) == d >= -1 /\ d <= 127
DaysDecided(d) == d >= -1
Days(d) == IF d = -1 THEN "Mon-Sun" ELSE Join(NamesOf(d, DayNames, 0, 7), ",")
\* month word (signed): <= 0 and 0x0fff = no restriction, 1..0x0ffe = bit list; bits above 11 are undocumented
\* (left undecided)
MonthsOk(m) == m <= 4095
MonthsDecided(m) == m <= 4095
Months(m) == IF m <= 0 \/ m = 4095 THEN "" ELSE Join(NamesOf(m, MonthNames, 0, 12), ",")
HourOk(h, v2) == (h >= 0 /\ h <= 23) \/ h = 48 \/ (v2 /\ h = -1)
MinOk(m, v2) == (m >= 0 /\ m <= 59) \/ (v2 /\ m = -1)

S16(w) == IF w >= 32768 THEN w - 65536 ELSE w

\* 8 bytes: start_h start_m end_h end_m power(S16) on_off day_bits
EcoV1(b) ==
    LET sh == S8(b[1]) sm == S8(b[2]) eh == S8(b[3]) em == S8(b[4])
        pw == S16(W(b, 5)) oo == S8(b[7]) db == S8(b[8]) IN
    IF ~(HourOk(sh, FALSE) /\ MinOk(sm, FALSE) /\ HourOk(eh, FALSE) /\ MinOk(em, FALSE)
         /\ pw >= -100 /\ pw <= 100 /\ oo \in {0, -1}) THEN NoneV
    ELSE IF ~DaysDecided(db) THEN Val("undecided", <<>>, "")
    ELSE IF DaysOk(db)
    THEN Val("eco", <<sh, sm, eh, em, pw, oo, db, 100, 0, 0>>, Days(db) \o "|")
    ELSE NoneV

\* schedule type from the on/off byte: 0/-1 eco, 1/-2 dry contact load, ... 6/-7 eco (745), 85 not set
SchedType(oo) == IF oo >= 0 /\ oo <= 6 THEN oo
                 ELSE IF oo <= -1 /\ oo >= -7 THEN -1 - oo
                 ELSE IF oo = 85 THEN 85 ELSE -1
PowerOk(st, p) == CASE st = 0 -> p >= -100 /\ p <= 100
                    [] st = 6 -> p >= -1000 /\ p <= 1000
                    [] OTHER -> TRUE
\* 12 bytes: start_h start_m end_h end_m on_off day_bits power(S16) soc(S16) month_bits(S16)
Sched(b) ==
    LET sh == S8(b[1]) sm == S8(b[2]) eh == S8(b[3]) em == S8(b[4])
        oo == S8(b[5]) db == S8(b[6]) pw == S16(W(b, 7)) soc == S16(W(b, 9)) mb == S16(W(b, 11))
        st == SchedType(oo) IN
    IF ~(HourOk(sh, TRUE) /\ MinOk(sm, TRUE) /\ HourOk(eh, TRUE) /\ MinOk(em, TRUE) /\ st # -1) THEN NoneV
    ELSE IF ~DaysDecided(db) THEN Val("undecided", <<>>, "")
    ELSE IF ~(PowerOk(st, pw) /\ soc >= 0 /\ soc <= 100) THEN NoneV
    ELSE IF ~MonthsDecided(mb) THEN Val("undecided", <<>>, "")
    ELSE IF DaysOk(db) /\ MonthsOk(mb)
    THEN Val("eco", <<sh, sm, eh, em, pw, oo, db, soc, mb, st>>, Days(db) \o "|" \o Months(mb))
    ELSE NoneV

(***************************************************************************)
(* IEEE-754 single: decided for finite values that are integers (see       *)
(* DESIGN.md section 6); other bit patterns are classified only            *)
(***************************************************************************)
FloatClass(b) ==
    LET e == (b[1] % 128) * 2 + b[2] \div 128
        frac == (b[2] % 128) * 65536 + b[3] * 256 + b[4] IN
    IF e = 255 THEN (IF frac = 0 THEN "inf" ELSE "nan")
    ELSE IF e = 0 THEN (IF frac = 0 THEN "zero" ELSE "subnormal")
    ELSE "normal"
\* value of a normal float if it is an integer below 2^31, else -1
FloatInt(b) ==
    LET e == (b[1] % 128) * 2 + b[2] \div 128
        m == 8388608 + (b[2] % 128) * 65536 + b[3] * 256 + b[4]        \* 24 bit significand
        sh == e - 150 IN
    IF sh >= 0 THEN (IF sh <= 7 THEN m * (2 ^ sh) ELSE -1)
    ELSE IF -sh <= 23 /\ m % (2 ^ (-sh)) = 0 THEN m \div (2 ^ (-sh)) ELSE -1
\* a normal float below 2^24 with a fractional part: the nearest integer, -1 on an exact tie (either neighbour is a
\* correct rounding then: not decided)
FloatNear(b) ==
    LET e == (b[1] % 128) * 2 + b[2] \div 128
        m == 8388608 + (b[2] % 128) * 65536 + b[3] * 256 + b[4]
        s == 150 - e IN
    IF s >= 26 THEN 0                                  \* |x| < 1/4
    ELSE LET p == 2 ^ s  fl == m \div p  fr == m % p IN
         IF 2 * fr = p THEN -1 ELSE IF 2 * fr > p THEN fl + 1 ELSE fl
\* Float(scale = 1000): the register holds Wh, the sensor reports kWh rounded to 3 decimals, i.e. the nearest whole Wh
\* divided by 1000: exact for integer values below 2^31, the nearest integer for fractional values, 0 for subnormals
Float(b) ==
    LET c == FloatClass(b)
        e == (b[1] % 128) * 2 + b[2] \div 128 IN
    IF c \in {"zero", "subnormal"} THEN Num(1000, FALSE, <<0>>)
    ELSE IF c = "normal" /\ FloatInt(b) >= 0
         THEN LET v == FloatInt(b) IN Num(1000, b[1] >= 128, <<v \div 65536, v % 65536>>)
    ELSE IF c = "normal" /\ e < 150 /\ FloatNear(b) >= 0
         THEN LET v == FloatNear(b) IN Num(1000, b[1] >= 128, <<v \div 65536, v % 65536>>)
    ELSE Val("undecided", <<>>, "")          \* not decided by the specification (NaN, infinities, >= 2^31, exact ties)

(***************************************************************************)
(* Decode(ty, par, b): the documented reading.  par = [scale, labels]      *)
(***************************************************************************)
Size(ty) ==
    CASE ty \in {"Voltage", "Current", "CurrentS", "Frequency", "Power", "PowerS", "Energy", "Apparent", "Reactive",
                 "Temp", "CellVoltage", "Integer", "IntegerS", "Decimal", "Enum2"} -> 2
      [] ty \in {"Byte", "ByteH", "Enum", "EnumH"} -> 1
      [] ty \in {"ByteL", "EnumL"} -> 2        \* second byte of the register
      [] ty \in {"Power4", "Power4S", "Energy4", "Energy4W", "Apparent4", "Reactive4", "Long", "LongS", "Float",
                 "EnumBitmap4"} -> 4
      [] ty = "Timestamp" -> 6
      [] ty = "Energy8" -> 8
      [] ty = "EcoModeV1" -> 8
      [] ty \in {"EcoModeV2", "Schedule", "PeakShavingMode"} -> 12
      [] OTHER -> 0

Den(ty, par) ==
    CASE ty \in {"Voltage", "Current", "CurrentS", "Energy", "Energy4", "Temp"} -> 10
      [] ty \in {"Frequency", "Energy8"} -> 100
      [] ty \in {"CellVoltage", "Energy4W", "Float"} -> 1000
      [] ty = "Decimal" -> par.scale
      [] OTHER -> 1

\* two-word bitmap: high word * 65536 + low word, each word 0xFFFF reading as 0
Bitmap22(hb, lb, labels) ==
    Bitmap(IF AllFF(hb) THEN 0 ELSE W(hb, 1), IF AllFF(lb) THEN 0 ELSE W(lb, 1), labels)

Decode(ty, par, b) ==
    CASE ty \in {"Voltage", "Current"} -> IF AllFF(b) THEN U(10, <<0>>) ELSE U(10, <<W(b, 1)>>)
      [] ty = "CellVoltage" -> IF AllFF(b) THEN U(1000, <<0>>) ELSE U(1000, <<W(b, 1)>>)
      [] ty = "CurrentS" -> S(10, <<W(b, 1)>>)
      [] ty = "Frequency" -> S(100, <<W(b, 1)>>)
      [] ty = "Decimal" -> S(par.scale, <<W(b, 1)>>)
      [] ty = "Power" -> IF AllFF(b) THEN NoneV ELSE U(1, <<W(b, 1)>>)
      [] ty = "Energy" -> IF AllFF(b) THEN NoneV ELSE U(10, <<W(b, 1)>>)
      [] ty = "Integer" -> IF AllFF(b) THEN U(1, <<0>>) ELSE U(1, <<W(b, 1)>>)
      [] ty \in {"PowerS", "Apparent", "Reactive", "IntegerS"} -> S(1, <<W(b, 1)>>)
      [] ty = "Temp" -> IF W(b, 1) \in {65535, 32767} THEN NoneV ELSE S(10, <<W(b, 1)>>)
      [] ty = "Power4" -> IF AllFF(b) THEN NoneV ELSE U(1, Words(b))
      [] ty = "Energy4" -> IF AllFF(b) THEN NoneV ELSE U(10, Words(b))
      [] ty = "Energy4W" -> IF AllFF(b) THEN NoneV ELSE U(1000, Words(b))
      [] ty = "Energy8" -> IF AllFF(b) THEN NoneV ELSE U(100, Words(b))
      [] ty = "Long" -> IF AllFF(b) THEN U(1, <<0>>) ELSE U(1, Words(b))
      [] ty \in {"Power4S", "Apparent4", "Reactive4", "LongS"} -> S(1, Words(b))
      [] ty \in {"Byte", "ByteH"} -> SmallNum(S8(b[1]))
      [] ty = "ByteL" -> SmallNum(S8(b[2]))
      [] ty \in {"Enum", "EnumH"} -> Lookup(par.labels, S8(b[1]))
      [] ty = "EnumL" -> Lookup(par.labels, S8(b[2]))
      [] ty = "Enum2" -> Lookup(par.labels, IF AllFF(b) THEN 0 ELSE W(b, 1))
      [] ty = "EnumBitmap4" -> IF AllFF(b) THEN Str("") ELSE Bitmap(W(b, 1), W(b, 3), par.labels)
      [] ty = "Timestamp" -> Timestamp(b)
      [] ty = "EcoModeV1" -> EcoV1(b)
      [] ty \in {"EcoModeV2", "Schedule", "PeakShavingMode"} -> Sched(b)
      [] ty = "Float" -> Float(b)
      [] ty = "EnumBitmap22" -> Bitmap22(SubSeq(b, 1, 2), SubSeq(b, 3, 4), par.labels)    \* high word, low word
      [] OTHER -> Val("unmodelled", <<>>, ty)

(***************************************************************************)
(* Encoding of settable types (C17).  Encode(ty, par, v, old) = the bytes  *)
(* that have to reach the setting's registers for value v; old = current   *)
(* content of the register (1-byte settings share a register with another  *)
(* one).  <<>> = v is outside the encodable domain of the type.            *)
(***************************************************************************)
Enc16(n) == LET w == IF n < 0 THEN n + 65536 ELSE n IN <<w \div 256, w % 256>>
Enc8(n) == IF n < 0 THEN n + 256 ELSE n

\* the integer v * den for a "num" value that is a multiple of 1/den (small values), else "none"
Scaled(v, den) ==
    LET l == Limbs(v) IN
    IF Len(l) > 2 THEN <<>>
    ELSE LET m == IF Len(l) = 1 THEN l[1] ELSE l[1] * 65536 + l[2] IN
         IF Len(l) = 2 /\ l[1] > 16 THEN <<>>                  \* keeps the product below 2^31
         ELSE IF (m * den) % v.a[1] # 0 THEN <<>>
         ELSE <<(IF v.a[2] = 1 THEN -1 ELSE 1) * ((m * den) \div v.a[1])>>

Signed(ty) == ty \in {"IntegerS", "CurrentS", "Decimal", "LongS", "ByteH", "ByteL", "Byte"}

Encode(ty, par, v, old) ==
    CASE ty \in {"Integer", "IntegerS", "Voltage", "Current", "CurrentS", "Decimal"} ->
           LET sc == IF v.k = "num" THEN Scaled(v, Den(ty, par)) ELSE <<>> IN
           IF sc = <<>> THEN <<>>
           ELSE LET n == sc[1] IN
                IF Signed(ty) THEN (IF n >= -32768 /\ n <= 32767 THEN Enc16(n) ELSE <<>>)
                ELSE (IF n >= 0 /\ n <= 65535 THEN Enc16(n) ELSE <<>>)
      [] ty \in {"ByteH", "ByteL"} ->
           LET sc == IF v.k = "num" THEN Scaled(v, 1) ELSE <<>> IN
           IF sc = <<>> \/ Len(old) # 2 THEN <<>>
           ELSE IF sc[1] < -128 \/ sc[1] > 127 THEN <<>>
           ELSE IF ty = "ByteH" THEN <<Enc8(sc[1]), old[2]>> ELSE <<old[1], Enc8(sc[1])>>
      [] ty = "Long" ->
           IF v.k # "num" \/ v.a[1] # 1 \/ v.a[2] = 1 \/ Len(Limbs(v)) > 2 THEN <<>>
           ELSE LET l == Limbs(v) h == IF Len(l) = 2 THEN l[1] ELSE 0 lo == l[Len(l)] IN
                <<h \div 256, h % 256, lo \div 256, lo % 256>>
      [] ty = "Timestamp" ->
           IF v.k # "dt" THEN <<>>
           ELSE IF v.a[1] < 2000 \/ v.a[1] > 2255 THEN <<>>
           ELSE <<v.a[1] - 2000, v.a[2], v.a[3], v.a[4], v.a[5], v.a[6]>>
      [] ty \in {"EcoModeV1", "EcoModeV2", "Schedule", "PeakShavingMode"} ->
           \* group values are handed over as raw bytes; only well-formed groups may be written
           IF v.k # "bytes" \/ Len(v.a) # Size(ty) THEN <<>>
           ELSE IF Decode(ty, par, v.a).k = "none" THEN <<>> ELSE v.a
      [] OTHER -> <<>>
=============================================================================
