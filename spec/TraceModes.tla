----------------------------- MODULE TraceModes -----------------------------
(***************************************************************************)
(* C19: operation mode, export limit and depth-of-discharge setters round  *)
(* trip with their getters.                                                *)
(*                                                                         *)
(* Part 1 (design, checked by ASSUME = exhaustively by TLC at start-up):   *)
(* the documented 24/7 eco-mode groups.  For every power 1..100, SoC       *)
(* 0..100 and group format (v1 8 bytes, v2 12 bytes with schedule type     *)
(* ECO_MODE, v2 with ECO_MODE_745: power x 10 and month mask 0x0fff) the   *)
(* group bytes decode (Decode.tla) to a group that is recognised as the    *)
(* charge / discharge pattern with exactly that power and SoC.             *)
(*                                                                         *)
(* Part 2 (binding): cases recorded from the real classes                  *)
(*   enc    bytes produced by encode_charge / encode_discharge for the     *)
(*          complete (power, SoC, format) grid, compared with GroupBytes   *)
(*   mode   set_operation_mode(m, power, soc) on a simulated inverter,     *)
(*          then get_operation_mode(), read_setting(eco_mode_1) and the    *)
(*          switches of groups 2..4                                        *)
(*   limit  set_grid_export_limit / set_ongrid_battery_dod then the getter *)
(***************************************************************************)
EXTENDS Decode, Json, IOUtils

(***************************************************************************)
(* the documented groups                                                   *)
(***************************************************************************)
\* fmt: "v1" | "v2" | "v2_745"
ScaledPower(fmt, p) == IF fmt = "v2_745" THEN 10 * p ELSE p
OnByte(fmt) == IF fmt = "v2_745" THEN 249 ELSE 255         \* 255 - schedule type (eco = 0, eco 745 = 6)
MonthWord(fmt) == IF fmt = "v2_745" THEN <<15, 255>> ELSE <<0, 0>>
\* 00:00-23:59, every day, switched on, sign-carrying power, SoC
GroupBytes(fmt, charge, p, soc) ==
    LET pw == Enc16(IF charge THEN -ScaledPower(fmt, p) ELSE ScaledPower(fmt, p)) IN
    IF fmt = "v1" THEN <<0, 0, 23, 59>> \o pw \o <<255, 127>>
    ELSE <<0, 0, 23, 59, OnByte(fmt), 127>> \o pw \o <<0, IF charge THEN soc ELSE 100>> \o MonthWord(fmt)

TypeOf(fmt) == IF fmt = "v1" THEN "EcoModeV1" ELSE "EcoModeV2"
NoPar == [scale |-> 0, labels |-> <<>>]
Group(fmt, b) == Decode(TypeOf(fmt), NoPar, b)

\* fields of a decoded group value: a = <<sh, sm, eh, em, power, on_off, day_bits, soc, month_bits, stype>>
IsAllDay(g) == g.k = "eco" /\ g.a[1] = 0 /\ g.a[2] = 0 /\ g.a[3] = 23 /\ g.a[4] = 59 /\ g.a[7] = 127
IsOn(g) == g.a[6] < 0
\* power in percent as documented: the 745 format stores tenths of a percent
PercentOf(g) == IF g.a[10] = 6 THEN g.a[5] \div 10 ELSE g.a[5]
PercentExact(g) == g.a[10] = 6 => g.a[5] % 10 = 0
IsCharge(g) == IsAllDay(g) /\ IsOn(g) /\ g.a[5] < 0 /\ g.a[9] \in {0, 4095}
IsDischarge(g) == IsAllDay(g) /\ IsOn(g) /\ g.a[5] > 0 /\ g.a[9] \in {0, 4095}

Fmts == {"v1", "v2", "v2_745"}
ASSUME \A fmt \in Fmts, p \in 1..100, soc \in 0..100 :
         LET g == Group(fmt, GroupBytes(fmt, TRUE, p, soc)) IN
           /\ IsCharge(g) /\ ~IsDischarge(g)
           /\ PercentExact(g) /\ PercentOf(g) = -p
           /\ (fmt # "v1" => g.a[8] = soc)
ASSUME \A fmt \in Fmts, p \in 1..100 :
         LET g == Group(fmt, GroupBytes(fmt, FALSE, p, 100)) IN
           IsDischarge(g) /\ ~IsCharge(g) /\ PercentExact(g) /\ PercentOf(g) = p

(***************************************************************************)
(* the judge                                                               *)
(***************************************************************************)
Batch == JsonDeserialize(IOEnv.VERIF_BATCH)
Cases == Batch.cases
N == Len(Cases)

ECO == 3
ECO_CHARGE == 98
ECO_DISCHARGE == 99

JudgeEnc(c) ==
    IF c.bytes = GroupBytes(c.fmt, c.charge, c.power, c.soc) THEN {} ELSE {"C19.GroupBytes"}

SwitchOff(v) == v.k = "num" /\ v.a[2] = 0          \* switch byte >= 0: the group is not enabled
\* the same on the bytes of a group as they stand in the inverter afterwards: 12-byte format: the signed on/off byte is not
\* negative; 8-byte format: the on/off byte is 0
RawOff(v2, b) == IF v2 THEN Len(b) >= 5 /\ b[5] < 128 ELSE Len(b) >= 7 /\ b[7] = 0

JudgeMode(c) ==
    IF ~c.setok THEN {"INFO.setfailed"}
    ELSE (IF c.getok /\ c.got = c.mode THEN {} ELSE {"C19.RoundTrip"})
         \cup (IF c.mode \in {ECO_CHARGE, ECO_DISCHARGE} THEN
                 (IF c.g1.k # "eco" THEN {"C19.GroupDecodes"}
                  ELSE (IF (c.mode = ECO_CHARGE /\ IsCharge(c.g1)) \/ (c.mode = ECO_DISCHARGE /\ IsDischarge(c.g1))
                        THEN {} ELSE {"C19.GroupPattern"})
                       \cup (IF PercentExact(c.g1) /\ PercentOf(c.g1) = (IF c.mode = ECO_CHARGE THEN -c.power ELSE c.power)
                             THEN {} ELSE {"C19.GroupPower"})
                       \cup (IF c.mode = ECO_CHARGE /\ c.g1.a[10] # -1 /\ c.v2 /\ c.g1.a[8] # c.soc
                             THEN {"C19.GroupSoc"} ELSE {}))
                 \cup (IF \A k \in 1..Len(c.sw) : c.sw[k].k = "absent" \/ SwitchOff(c.sw[k]) THEN {} ELSE {"C19.OthersOff"})
                 \cup (IF \A k \in 1..Len(c.raw) : RawOff(c.v2, c.raw[k]) THEN {} ELSE {"C19.OthersOffInInverter"})
               ELSE {})

JudgeLimit(c) ==
    IF ~c.setok THEN {"INFO.setfailed"}
    ELSE IF c.getok /\ c.got = c.value THEN {} ELSE {"C19.LimitRoundTrip"}

\* a step of a sequence of mode changes on one object: the getter reports the mode that was just set
JudgeSeqStep(c) ==
    IF ~c.setok THEN {"INFO.setfailed"}
    ELSE IF c.getok /\ c.got = c.mode THEN {} ELSE {"C19.RoundTrip"}

Judge(c) == CASE c.kind = "enc" -> JudgeEnc(c)
              [] c.kind = "seqstep" -> JudgeSeqStep(c)
              [] c.kind = "mode" -> JudgeMode(c)
              [] c.kind = "limit" -> JudgeLimit(c)

VARIABLES cid, done
Init == cid \in 1..N /\ done = FALSE
Next == /\ ~done
        /\ PrintT("VERDICT|" \o ToString(cid) \o "|" \o ToString({<<v, 1>> : v \in Judge(Cases[cid])}))
        /\ done' = TRUE
        /\ UNCHANGED cid
Spec == Init /\ [][Next]_<<cid, done>>
=============================================================================
