----------------------------- MODULE TraceWire -----------------------------
(***************************************************************************)
(* Judges what the real frame validators, command constructors and the     *)
(* Modbus/TCP transaction counter did, against Wire.tla.                   *)
(*                                                                         *)
(* A batch is a table of byte strings and a list of cases                  *)
(*   validate  the validator of command cmd was given frame f and ended    *)
(*             with outcome out (accept / refuse / partial(len, exp) /     *)
(*             rejected(msg) / raise:<type>); pf = payload handed out      *)
(*   request   the library built the bytes f for the operation cmd         *)
(*   txhist    the transaction ids of consecutive Modbus/TCP transmissions *)
(* Each case is one initial state; one step computes its verdict.          *)
(***************************************************************************)
EXTENDS Integers, Sequences, FiniteSets, TLC, Json, IOUtils, Wire

Batch  == JsonDeserialize(IOEnv.VERIF_BATCH)
Frames == Batch.frames
Cases  == Batch.cases
N      == Len(Cases)
Fr(f)  == Frames[f]

\* value of a write command as it goes on the wire: two's complement of the signed argument
WireCmd(c) == IF c.op = "write" THEN [c EXCEPT !.n = U16(c.n)] ELSE c

Prefix(p, s) == Len(p) <= Len(s) /\ p = SubSeq(s, 1, Len(p))

JudgeValidate(c) ==
    LET cmd == WireCmd(c.cmd)
        d == Fr(c.f)
        a == Allowed(cmd, d)
        documented == c.out \in {"accept", "refuse", "partial", "rejected"}
    IN  {"INFO." \o a.must}
        \cup (IF ~documented THEN {"C01.DocumentedOutcome"} ELSE {})
        \cup (IF c.out = "accept" /\ a.must # "accept" THEN {"C01.NeverAcceptInvalid"} ELSE {})
        \cup (IF a.must = "accept" /\ c.out # "accept" THEN {"C02.AcceptConforming"} ELSE {})
        \cup (IF a.must = "accept" /\ c.out = "accept" /\ c.pf # 0
              THEN LET pl == Payload(cmd, d) IN
                   IF Len(d) = Expected(cmd, d)
                   THEN (IF Fr(c.pf) = pl THEN {} ELSE {"C02.Payload"})
                   ELSE (IF Prefix(pl, Fr(c.pf)) THEN {"OBS.TrailingBytesInPayload"} ELSE {"C02.Payload"})
              ELSE {})
        \cup (IF a.must = "partial" /\ documented /\ ~(c.out = "partial" /\ c.len = a.len /\ c.exp = a.exp)
              THEN {"C07.PartialLengths"} ELSE {})
        \cup (IF a.must = "rejected" /\ documented /\ ~(c.out = "rejected" /\ ReasonOk(a.code, c.msg))
              THEN {"C08.RejectedReason"} ELSE {})

\* C03: canonical bytes and independent decoding
JudgeRequest(c) ==
    IF c.f = 0 THEN {"C03.Constructible"}      \* the constructor raised for arguments inside the documented domain
    ELSE
    LET cmd == WireCmd(c.cmd)
        b == Fr(c.f)
        tx == IF cmd.fr = "tcp" /\ Len(b) >= 2 THEN BE16(b[1], b[2]) ELSE 0
        want == IF cmd.op = "raw" THEN Aa55Req(cmd.payload) ELSE RequestOf(cmd, tx, cmd.payload)
        p == ParseRequest(cmd.fr, b)
        decoded == /\ p.ok
                   /\ IF cmd.op = "raw" THEN p.payload = SubSeq(cmd.payload, 4, Len(cmd.payload))
                                             /\ p.reg = BE16(cmd.payload[1], cmd.payload[2])
                      ELSE /\ p.op = cmd.op /\ p.reg = cmd.reg /\ p.n = cmd.n
                           /\ (cmd.fr # "aa55" => p.addr = cmd.addr)
                           /\ (cmd.op = "wmulti" => p.payload = cmd.payload)
    IN  (IF b = want THEN {} ELSE {"C03.Canonical"})
        \cup (IF decoded THEN {} ELSE {"C03.Decodable"})
        \cup (IF cmd.fr = "tcp" /\ tx = 0 THEN {"C03.TxIdNonZero"} ELSE {})

JudgeTx(c) ==
    LET ids == c.ids IN
    (IF \E k \in 1..Len(ids) : ids[k] = 0 \/ ids[k] < 0 \/ ids[k] > 65535 THEN {"C03.TxIdNonZero"} ELSE {})
    \cup (IF \E k \in 1..(Len(ids) - 1) : ids[k] = ids[k + 1] THEN {"C03.TxIdChanges"} ELSE {})

Judge(c) == CASE c.kind = "validate" -> JudgeValidate(c)
              [] c.kind = "request" -> JudgeRequest(c)
              [] c.kind = "txhist" -> JudgeTx(c)

VARIABLES cid, done
vars == <<cid, done>>

Init == cid \in 1..N /\ done = FALSE
Next == /\ ~done
        /\ PrintT("VERDICT|" \o ToString(cid) \o "|" \o ToString({<<v, 1>> : v \in Judge(Cases[cid])}))
        /\ done' = TRUE
        /\ UNCHANGED cid
Spec == Init /\ [][Next]_vars
=============================================================================
