SPECIFICATION TraceSpec
CONSTANTS
  Addr = {0}
  Word = {0}
  MaxCount = 1
CHECK_DEADLOCK FALSE
