---------------------------- MODULE ProtoMonitor ----------------------------
(***************************************************************************)
(* Property monitor for the transport layer of goodwe (C01..C10 as far as  *)
(* they are visible at the asyncio boundary).                              *)
(*                                                                         *)
(* It is an observer automaton over the event vocabulary                   *)
(*   CALL RET SEND DLV OPEN CLOSE PEERCLOSE ERR CONN CONNFAIL LOST UCLOSE  *)
(*   UCLOSED UCANCEL UNHANDLED HANG LOOP END                               *)
(* It is total (no event ever blocks), constrains only what the properties *)
(* state, and reports every failed clause by name.                         *)
(*                                                                         *)
(* The module is parametrised by the frame interface, so that the very     *)
(* same clauses judge                                                      *)
(*   - recorded executions of the real code (TraceProtocol.tla: frames are *)
(*     byte strings, the interface is Wire.tla), and                       *)
(*   - every behaviour of the design model (Protocol.tla: frames are       *)
(*     abstract records), where `viol = {}` is the invariant TLC checks.   *)
(***************************************************************************)
EXTENDS Integers, Sequences, FiniteSets

CONSTANTS
    Must(_, _),          \* (cmd, frame) -> [must |-> "accept"|"rejected"|"partial"|"nonaccept", code |-> ..]
    ReqMatch(_, _),      \* (cmd, frame): frame is the canonical request of cmd
    TxId(_, _),          \* (cmd, frame): transaction id of a transmitted frame, -1 if the framing has none
    Completes(_, _, _),  \* (cmd, head, piece): piece is exactly what head lacks and head \o piece is well formed
    IsData(_, _),        \* (data, <<frame>> or <<head, piece>>): data is that frame / that concatenation
    WF(_, _),            \* (cmd, data): data is a well-formed answer to cmd
    PayloadOk(_, _, _),  \* (cmd, data, payload): payload handed to the caller is the one carried by data
    OwnTag(_, _),        \* (cmd, data): the payload is the one the peer serves for cmd's own register
    ReasonOk(_, _),      \* (exception code, message)
    NoFrame

None == [kind |-> "none", t |-> 0, fs |-> <<>>, code |-> 0]

\* clauses that describe behaviour outside the quantifier of a listed property: reported, never a violation
ObsClauses == {"OBS.TxBoundConcurrent", "OBS.CancelSwallowed", "OBS.StaleTimerAfterUserCancel", "OBS.TxBoundAfterUserCancel"}

NewReq == [st |-> "new", sends |-> 0, first |-> 0, last |-> 0, lastEv |-> 0, net |-> FALSE,
           wait |-> 0, conn |-> FALSE, parts |-> <<>>, hasBuf |-> FALSE, buf |-> NoFrame, bufT |-> 0,
           dirty |-> FALSE, expect |-> None, trs |-> {}, spacingBad |-> FALSE, uc |-> FALSE]

InitM(nreq) == [open    |-> {},
                rq      |-> [r \in 1..nreq |-> NewReq],
                lastReq |-> 0,
                lastTx  |-> -1,
                reuse   |-> [valid |-> FALSE, tr |-> 0],
                hist    |-> FALSE,       \* a request has completed before on this object
                ucHist  |-> FALSE]       \* the user cancelled a task in the middle of a request before

Active(mm) == {r \in DOMAIN mm.rq : mm.rq[r].st = "act"}

\* the request a transport-level event belongs to: the one that transmitted last
Cur(mm) == IF mm.lastReq # 0 /\ mm.rq[mm.lastReq].st = "act" THEN mm.lastReq ELSE 0
\* before the first transmission (connecting): the only active request, if unique
CurOrOnly(mm) == IF Cur(mm) # 0 THEN Cur(mm)
                 ELSE IF Cardinality(Active(mm)) = 1 THEN CHOOSE r \in Active(mm) : TRUE ELSE 0

R(mm, v) == [m |-> mm, v |-> v]

(***************************************************************************)
(* meta: [kind, fr, ka, retries, T, CT, ncallers, assume, cmds]            *)
(***************************************************************************)
OnCall(mm, e, meta) ==
    R([mm EXCEPT !.rq[e.r] = [NewReq EXCEPT !.st = "act", !.first = e.t, !.last = e.t, !.lastEv = e.t]], {})

OnSend(mm, e, meta) ==
    LET cands == {r \in Active(mm) : ReqMatch(meta.cmds[r], e.f)}
    IN IF cands = {} THEN R([mm EXCEPT !.lastReq = 0], {"C04.SameBytes", "C03.OnWire"})
       ELSE
       LET r == CHOOSE x \in cands : \A y \in cands : x <= y
           q == mm.rq[r]
           single == meta.ncallers = 1
           tx == TxId(meta.cmds[r], e.f)
           q2 == [q EXCEPT !.sends = q.sends + 1,
                           !.first = IF q.sends = 0 THEN e.t ELSE q.first,
                           !.last = e.t, !.lastEv = e.t,
                           !.wait = e.t + meta.T, !.conn = FALSE,
                           !.parts = <<>>, !.hasBuf = FALSE, !.buf = NoFrame, !.dirty = FALSE, !.expect = None,
                           !.trs = q.trs \cup {e.tr},
                           !.spacingBad = q.spacingBad \/ (~q.net /\ q.sends > 0 /\ e.t # q.first + q.sends * meta.T)]
           \* (a user cancellation that lands between the arrival of the answer and the wake-up of the task finds the retry
        \* counter already reset: one more transmission than the budget - outside C04's quantifier, an observation)
        v == (IF q.sends + 1 > meta.retries + 1
                 THEN IF q.uc THEN {"OBS.TxBoundAfterUserCancel"}
                      ELSE IF single THEN {"C04.TxBound"} ELSE {"OBS.TxBoundConcurrent"} ELSE {})
                \cup (IF meta.assume /\ \E r2 \in Active(mm) \ {r} : mm.rq[r2].sends > 0 /\ mm.rq[r2].wait > e.t
                      THEN {"C06.Mutex"} ELSE {})
                \cup (IF tx # -1 /\ (tx = 0 \/ tx = mm.lastTx) THEN {"C03.TxId"} ELSE {})
                \* a transport the library was told is gone (closed by itself, by the peer, orderly or not) is not used again:
                \* the next request (re)connects
                \cup (IF e.tr \notin mm.open THEN {"C10.DeadTransport"} ELSE {})
                \cup (IF single /\ q.sends > 0 /\ ~q.net /\ e.t < q.last + meta.T
                      THEN (IF mm.ucHist THEN {"OBS.StaleTimerAfterUserCancel"}
                            ELSE {"C05.FullTimeout"} \cup (IF mm.hist THEN {"C10.NextWorks"} ELSE {})) ELSE {})
                \* transmitting again although the answer that decides the request has arrived: also a failure of the
                \* property that made the answer decisive
                \cup (IF q.expect.kind # "none"
                      THEN {"C04.SendAfterDecision",
                            IF q.expect.kind = "rej" THEN "C08.RejectImmediate"
                            ELSE IF Len(q.expect.fs) = 2 THEN "C07.Reassembly" ELSE "C02.AcceptedDelivered"}
                      ELSE {})
                \* C07: while the head of an answer is buffered, its second piece has one timeout to arrive
                \cup (IF single /\ q.hasBuf /\ ~q.dirty /\ e.t < q.bufT + meta.T
                      THEN {IF mm.ucHist THEN "OBS.StaleTimerAfterUserCancel" ELSE "C07.WaitForSecondPiece"} ELSE {})
       IN R([mm EXCEPT !.rq[r] = q2, !.lastReq = r, !.lastTx = tx], v)

OnDlv(mm, e, meta) ==
    LET r == Cur(mm) IN
    IF r = 0 THEN R(mm, {})
    ELSE
    LET q == mm.rq[r]
        cmd == meta.cmds[r]
        cls == Must(cmd, e.f)
        inTime == e.t < q.last + meta.T
        decided == q.expect.kind # "none"
        exp2 ==
          IF decided \/ q.dirty THEN q.expect
          ELSE IF ~q.hasBuf THEN
                 IF cls.must = "accept" /\ inTime THEN [kind |-> "ok", t |-> e.t, fs |-> <<e.f>>, code |-> 0]
                 ELSE IF cls.must = "rejected" /\ inTime THEN [kind |-> "rej", t |-> e.t, fs |-> <<>>, code |-> cls.code]
                 ELSE None
          ELSE IF e.t < q.bufT + meta.T /\ Completes(cmd, q.buf, e.f)
               THEN [kind |-> "ok", t |-> e.t, fs |-> <<q.buf, e.f>>, code |-> 0]
               ELSE None
        isHead == ~decided /\ ~q.dirty /\ ~q.hasBuf /\ cls.must = "partial" /\ inTime
        q2 == [q EXCEPT !.expect = exp2,
                        !.hasBuf = isHead,
                        !.buf = IF isHead THEN e.f ELSE NoFrame,
                        !.bufT = IF isHead THEN e.t ELSE q.bufT,
                        !.dirty = q.dirty \/ (~isHead /\ exp2.kind = "none"),
                        !.wait = IF isHead THEN e.t + meta.T ELSE e.t,
                        !.parts = Append(q.parts, e.f),
                        !.net = TRUE, !.lastEv = e.t]
    IN R([mm EXCEPT !.rq[r] = q2], {})

\* a network-level fault on the transport of the current request
OnNetFault(mm, e, meta) ==
    LET r == CurOrOnly(mm)
        mm2 == [mm EXCEPT !.reuse.valid = FALSE] IN
    IF r = 0 THEN R(mm2, {})
    ELSE R([mm2 EXCEPT !.rq[r].net = TRUE, !.rq[r].lastEv = e.t,
                       !.rq[r].wait = e.t, !.rq[r].conn = FALSE, !.rq[r].dirty = TRUE], {})

OnConn(mm, e, meta) ==
    LET r == CurOrOnly(mm) IN
    IF r = 0 THEN R(mm, {})
    ELSE R([mm EXCEPT !.rq[r].conn = TRUE, !.rq[r].lastEv = e.t,
                      !.rq[r].net = mm.rq[r].net \/ e.why # "ok"], {})

OnOpen(mm, e, meta) ==
    LET o2 == mm.open \cup {e.tr}
        r == CurOrOnly(mm)
        mm2 == [mm EXCEPT !.open = o2]
        mm3 == IF r = 0 THEN mm2 ELSE [mm2 EXCEPT !.rq[r].conn = FALSE, !.rq[r].lastEv = e.t]
    IN R(mm3, IF Cardinality(o2) > 1 THEN {"C10.OneTransport"} ELSE {})

OnClosed(mm, e, meta) ==
    R([mm EXCEPT !.open = mm.open \ {e.tr}, !.reuse.valid = FALSE], {})

OnRet(mm, e, meta) ==
    LET r == e.r
        q == mm.rq[r]
        cmd == meta.cmds[r]
        single == meta.ncallers = 1
        ok == e.out = "ok"
        others == Active(mm) \ {r}
        silent == single /\ ~q.net
        builtFrom == \/ \E k \in 1..Len(q.parts) : IsData(e.f, <<q.parts[k]>>)
                     \/ \E k \in 1..(Len(q.parts) - 1) : IsData(e.f, <<q.parts[k], q.parts[k + 1]>>)
        \* a request whose task the user cancelled may end in CancelledError (it does not: OBS.CancelSwallowed)
        v1 == IF q.uc /\ e.out = "cancelled" THEN {}
              ELSE IF e.out \notin {"ok", "rejected", "failed"} THEN {"C09.Family", "C04.Outcome"}
              ELSE IF ~ok /\ ~e.fam THEN {"C09.Family"} ELSE {}
        v0 == IF q.uc /\ e.out # "cancelled" THEN {"OBS.CancelSwallowed"} ELSE {}
        v2 == IF single /\ e.t > q.lastEv + (IF q.conn THEN meta.CT ELSE meta.T) THEN {"C04.Deadline"} ELSE {}
        v3 == IF q.expect.kind = "ok"
              THEN IF ok /\ (single => e.t = q.expect.t) /\ IsData(e.f, q.expect.fs) THEN {}
                   ELSE IF Len(q.expect.fs) = 2 THEN {"C07.Reassembly"} ELSE {"C02.AcceptedDelivered"}
              ELSE IF q.expect.kind = "rej"
              THEN IF e.out = "rejected" /\ (single => e.t = q.expect.t) /\ ReasonOk(q.expect.code, e.msg) THEN {}
                   ELSE {"C08.RejectImmediate"}
              ELSE {}
        v4 == IF ok THEN
                   (IF WF(cmd, e.f) THEN {} ELSE {"C01.OnlyValidated"})
                   \cup (IF builtFrom THEN {} ELSE {"C07.NoCrossTransmission"})
                   \* a request completed with one piece that is only the head of an answer (the rest had not arrived)
                   \cup (IF \E j \in 1..Len(q.parts) : IsData(e.f, <<q.parts[j]>>) /\ Must(cmd, q.parts[j]).must = "partial"
                         THEN {"C07.Reassembly"} ELSE {})
                   \* a result that is two consecutive pieces glued together although the second is not exactly what the
                   \* first lacks (too long, too short, another answer's tail)
                   \* (the checksummed framings travel over UDP; the statement does not speak about Modbus/TCP here)
                   \cup (IF meta.kind = "udp" /\ (~\E j \in 1..Len(q.parts) : IsData(e.f, <<q.parts[j]>>))
                          /\ (\E i \in 1..(Len(q.parts) - 1) : IsData(e.f, <<q.parts[i], q.parts[i + 1]>>)
                                                               /\ ~Completes(cmd, q.parts[i], q.parts[i + 1]))
                       THEN {"C07.ExactRemainder"} ELSE {})
                   \cup (IF PayloadOk(cmd, e.f, e.pf) THEN {} ELSE {"C02.Payload"})
                   \cup (IF meta.assume /\ ~OwnTag(cmd, e.f) THEN {"C06.OwnAnswer"} ELSE {})
              ELSE {}
        silentOk == /\ q.sends = meta.retries + 1
                    /\ ~q.spacingBad
                    /\ e.out = "failed"
                    /\ e.t = q.first + (meta.retries + 1) * meta.T
        \* after a user cancellation the timer of the abandoned attempt is still armed (UDP) and may cut a later attempt
        \* short: outside the histories C05 quantifies over, reported as an observation
        v5 == IF silent /\ ~silentOk
              THEN IF mm.ucHist THEN {"OBS.StaleTimerAfterUserCancel"}
                   ELSE IF mm.hist THEN {"C05.SilentAfterHistory", "C04.Silent"} ELSE {"C04.Silent"}
              ELSE {}
        \* (for a request that is not the first on this object this is also C10's "the next request works": something left
        \* over from the history - a stale timer, a dead transport - cut an attempt short)
        v6 == IF single /\ ~ok /\ q.sends > 0 /\ ~q.net /\ e.t < q.last + meta.T
              THEN (IF mm.ucHist THEN {"OBS.StaleTimerAfterUserCancel"}
                    ELSE {"C05.FullTimeout"} \cup (IF mm.hist THEN {"C10.NextWorks"} ELSE {})) ELSE {}
        v7 == IF others = {} /\ ~meta.ka /\ mm.open # {} THEN {"C10.NoLeak"} ELSE {}
        v8 == IF meta.ka /\ ok /\ mm.reuse.valid /\ q.sends = 1 /\ q.trs # {mm.reuse.tr}
              THEN {"C10.Reuse"} ELSE {}
        lastTr == IF q.trs = {} THEN 0 ELSE CHOOSE x \in q.trs : \A y \in q.trs : y <= x
        reuse2 == IF ok /\ meta.ka /\ lastTr \in mm.open THEN [valid |-> TRUE, tr |-> lastTr]
                  ELSE [valid |-> FALSE, tr |-> 0]
    IN R([mm EXCEPT !.rq[r] = [NewReq EXCEPT !.st = "done"], !.reuse = reuse2, !.hist = TRUE],
         v0 \cup v1 \cup v2 \cup v3 \cup v4 \cup v5 \cup v6 \cup v7 \cup v8)

\* the user cancelled the task that runs request e.r: from here on the attempt in flight is abandoned; what the peer
\* sent for it no longer obliges the library, timing clauses of this request are off (like after a network fault)
OnUCancel(mm, e, meta) ==
    IF e.r \notin DOMAIN mm.rq \/ mm.rq[e.r].st # "act" THEN R(mm, {})
    ELSE R([mm EXCEPT !.rq[e.r].net = TRUE, !.rq[e.r].lastEv = e.t, !.rq[e.r].wait = e.t, !.rq[e.r].dirty = TRUE,
                      !.rq[e.r].expect = None, !.rq[e.r].uc = TRUE, !.ucHist = TRUE], {})

OnUClosed(mm, e, meta) ==
    R([mm EXCEPT !.reuse.valid = FALSE],
      IF Active(mm) = {} /\ mm.open # {} THEN {"C10.ClosedAfterClose"} ELSE {})

OnLoop(mm, e, meta) == R([mm EXCEPT !.open = {}, !.reuse.valid = FALSE], {})

OnEnd(mm, e, meta) ==
    R(mm, (IF Active(mm) # {} THEN {"C04.Terminates"} ELSE {})
          \cup (IF ~meta.ka /\ mm.open # {} THEN {"C10.NoLeak"} ELSE {})
          \cup (IF Cardinality(mm.open) > 1 THEN {"C10.OneTransport"} ELSE {}))

Step(mm, e, meta) ==
    CASE e.e = "CALL" -> OnCall(mm, e, meta)
      [] e.e = "SEND" -> OnSend(mm, e, meta)
      [] e.e = "DLV" -> OnDlv(mm, e, meta)
      [] e.e = "RET" -> OnRet(mm, e, meta)
      [] e.e = "OPEN" -> OnOpen(mm, e, meta)
      [] e.e = "CONN" -> OnConn(mm, e, meta)
      [] e.e = "CONNFAIL" -> OnNetFault(mm, e, meta)
      [] e.e = "ERR" -> OnNetFault(mm, e, meta)
      [] e.e = "PEERCLOSE" -> LET x == OnNetFault(mm, e, meta) IN R([x.m EXCEPT !.open = x.m.open \ {e.tr}], x.v)
      [] e.e = "CLOSE" -> OnClosed(mm, e, meta)
      [] e.e = "UCLOSE" -> OnNetFault(mm, e, meta)
      [] e.e = "UCLOSED" -> OnUClosed(mm, e, meta)
      [] e.e = "UCANCEL" -> OnUCancel(mm, e, meta)
      [] e.e = "UNHANDLED" -> R(mm, {"C09.NoUnhandled"})
      [] e.e = "HANG" -> R(mm, {"C04.Terminates"})
      [] e.e = "LOOP" -> OnLoop(mm, e, meta)
      [] e.e = "LOOPKEEP" -> R([mm EXCEPT !.reuse.valid = FALSE], {})    \* a new loop while the old one stays open
      [] e.e = "END" -> OnEnd(mm, e, meta)
      [] OTHER -> R(mm, {})
=============================================================================
