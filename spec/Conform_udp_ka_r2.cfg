SPECIFICATION CSpec
CHECK_DEADLOCK FALSE
CONSTANTS
  Kind = "udp"
  KeepAlive = TRUE
  Retries = 2
  T = 4
  CT = 40
  NCallers = 1
  NReq = 3
  Faults <- FaultsFull
  ConnOuts = {"ok"}
  MaxConnFail = 99
  Offsets = {0}
  Gaps = {0, 2}
  Strict = TRUE
  Horizon = 4000
  Fx <- FxAll
  Assume = FALSE
  CancelAts = {}
INVARIANT CNoViolation
