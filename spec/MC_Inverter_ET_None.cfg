SPECIFICATION Spec
CHECK_DEADLOCK FALSE
CONSTANTS
  Family = "ET"
  MaxCalls = 5
  Fx <- FxNone
INVARIANT KeysEqSensors
INVARIANT SecondCallSucceeds
INVARIANT MeterWindowCoversCut
INVARIANT ListedResolvable
INVARIANT RefusedDisappear
