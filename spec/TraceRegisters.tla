-------------------------- MODULE TraceRegisters ---------------------------
(***************************************************************************)
(* Trace validation of the simulated inverter (harness/siminverter.py)     *)
(* against Registers.tla: every request the library transmitted during a   *)
(* run and the answer the simulator gave it, plus the changes the harness  *)
(* made behind the library's back, are replayed through the actions of     *)
(* Registers.tla (ServeWith / PokeCore / Reconfigure); the recorded answer *)
(* must be the frame Wire.tla builds for the reaction the model prescribes.*)
(*                                                                         *)
(* A difference is a fault of the HARNESS (SIM.* clauses): the checks that *)
(* used the simulator stop with a machinery failure, it is never a verdict *)
(* about the library.                                                      *)
(*                                                                         *)
(* AA55 (ES family): identification / runtime blocks are canned frames,    *)
(* the settings block is a window on the register file from 0x0550, the    *)
(* register commands 0x011A / 0x0239 address the same file, 0x0359 sets    *)
(* the work mode register and 0x0335 the export limit register (DESIGN.md  *)
(* section 6: semantics implied by the library's own getter/setter pairs). *)
(***************************************************************************)
EXTENDS Registers, Json, IOUtils, TLC

Wr == INSTANCE Wire

Batch  == JsonDeserialize(IOEnv.VERIF_BATCH)
Frames == Batch.frames
Logs   == Batch.logs
N      == Len(Logs)
Fr(f)  == IF f = 0 THEN <<>> ELSE Frames[f]

VARIABLES lid, pos, bad, aa
tvars == <<vars, lid, pos, bad, aa>>

SettingsBase == 1360       \* 0x0550
Words(b) == [i \in 1..(Len(b) \div 2) |-> Wr!BE16(b[2 * i - 1], b[2 * i])]
Bytes(ws) == [i \in 1..(2 * Len(ws)) |-> IF i % 2 = 1 THEN Wr!Hi(ws[(i + 1) \div 2]) ELSE Wr!Lo(ws[(i + 1) \div 2])]
InRanges(rs, a) == \E i \in 1..Len(rs) : rs[i][1] <= a /\ a <= rs[i][2]

IsAa55(b) == Len(b) >= 9 /\ <<b[1], b[2], b[3], b[4]>> = <<170, 85, 192, 127>>

\* registers a request touches (the domain of the register function of a log is what its run touches at all)
Touched(lg, op) ==
    IF op.k = "poke" THEN {op.a}
    ELSE IF op.k # "req" THEN {}
    ELSE LET b == Fr(op.rq) IN
      IF IsAa55(b) THEN
         LET ctl == b[5] fn == b[6] pl == Wr!Sub(b, 8, Len(b) - 2) IN
           IF ctl = 1 /\ fn = 9 THEN Range(SettingsBase, (lg.aa55.slen + 1) \div 2)
           ELSE IF ctl = 1 /\ fn = 26 /\ Len(pl) >= 3 THEN Range(Wr!BE16(pl[1], pl[2]), pl[3])
           ELSE IF ctl = 2 /\ fn = 57 /\ Len(pl) >= 3 THEN Range(Wr!BE16(pl[1], pl[2]), (Len(pl) - 3) \div 2 + 1)
           ELSE IF ctl = 3 THEN {SettingsBase + 33, SettingsBase + 26}
           ELSE {}
      ELSE LET p == Wr!ParseRequest(lg.fr, b) IN
           IF ~p.ok THEN {} ELSE Range(p.reg, IF p.op = "write" THEN 1 ELSE p.n)

Dom(lg) == {lg.init[i][1] : i \in 1..Len(lg.init)} \cup UNION {Touched(lg, lg.ops[i]) \cap (0..65535) : i \in 1..Len(lg.ops)}

InitialContent(lg, d) ==
    Wr!FoldLeft(LAMBDA acc, pr : [acc EXCEPT ![pr[1]] = pr[2]], [a \in d |-> lg.default], lg.init)

TraceInit ==
    /\ lid \in 1..N
    /\ LET lg == Logs[lid]
           d == Dom(lg)
       IN
         /\ regs = InitialContent(lg, d)
         /\ refused = {a \in d : InRanges(lg.refused, a)}
         /\ silent = {a \in d : InRanges(lg.silent, a)}
         /\ aa = [info |-> lg.aa55.info, runtime |-> lg.aa55.runtime, mute |-> lg.aa55.mute, once |-> lg.aa55.once, served |-> FALSE]
    /\ hist = <<>> /\ init = <<>>
    /\ last = [op |-> [k |-> "none"], kind |-> "none", out |-> <<>>]
    /\ pos = 1 /\ bad = {}

(***************************************************************************)
(* Modbus requests                                                         *)
(***************************************************************************)
OpOf(p) == [k |-> p.op, first |-> p.reg, n |-> IF p.op = "read" THEN p.n ELSE IF p.op = "write" THEN 1 ELSE p.n,
            ws |-> IF p.op = "write" THEN <<p.n>> ELSE IF p.op = "wmulti" THEN Words(p.payload) ELSE <<>>]

\* the frame a conforming inverter sends for the reaction the model prescribes
ModbusAnswer(fr, p, reaction) ==
    LET fn == IF p.op = "read" THEN 3 ELSE IF p.op = "write" THEN 6 ELSE 16 IN
    CASE reaction.kind = "silent"  -> <<>>
      [] reaction.kind = "refused" -> IF fr = "rtu" THEN Wr!RtuExceptionAnswer(p.addr, fn, 2) ELSE Wr!TcpExceptionAnswer(p.tx, p.addr, fn, 2)
      [] reaction.kind = "data"    -> IF fr = "rtu" THEN Wr!RtuReadAnswer(p.addr, Bytes(reaction.out))
                                      ELSE Wr!TcpReadAnswer(p.tx, p.addr, Bytes(reaction.out))
      [] reaction.kind = "echo"    -> IF fr = "rtu" THEN Wr!RtuWriteAnswer(p.addr, fn, p.reg, p.n) ELSE Wr!TcpWriteAnswer(p.tx, p.addr, fn, p.reg, p.n)

Mismatch(cl) == bad' = bad \cup {<<cl, pos>>}
Judge(recorded, expected) == IF recorded = expected THEN bad' = bad ELSE Mismatch("SIM.Response")

ModbusStep(lg, rq, rs) ==
    LET p == Wr!ParseRequest(lg.fr, rq) IN
      IF ~p.ok
      THEN /\ Judge(rs, <<>>) /\ UNCHANGED <<vars, aa>>       \* not a request: a conforming inverter stays silent
      ELSE /\ ServeWith(OpOf(p), refused, silent)
           /\ Judge(rs, ModbusAnswer(lg.fr, p, last'))
           /\ UNCHANGED <<hist, aa>>

(***************************************************************************)
(* AA55 requests                                                           *)
(***************************************************************************)
RespType(ctl, fn) == ctl * 256 + (IF ctl = 3 /\ fn = 39 THEN 183 ELSE IF ctl = 3 /\ fn = 38 THEN 182 ELSE IF fn >= 128 THEN fn ELSE fn + 128)
Ack(ctl, fn) == Wr!Aa55Answer(RespType(ctl, fn), <<6>>)
Keep == UNCHANGED <<vars, aa>>

Aa55Step(lg, rq, rs) ==
    LET p == Wr!ParseAa55(rq)
        ctl == rq[5] fn == rq[6]
        pl == Wr!Sub(rq, 8, Len(rq) - 2)
        rt == RespType(ctl, fn)
    IN
      IF ~p.ok \/ aa.mute THEN Judge(rs, <<>>) /\ Keep
      ELSE IF ctl = 1 /\ fn = 2 THEN
             IF aa.once /\ aa.served THEN Judge(rs, <<>>) /\ Keep
             ELSE /\ Judge(rs, Wr!Aa55Answer(rt, Fr(aa.info)))
                  /\ aa' = [aa EXCEPT !.served = TRUE] /\ UNCHANGED vars
      ELSE IF ctl = 1 /\ fn = 6 THEN Judge(rs, Wr!Aa55Answer(rt, Fr(aa.runtime))) /\ Keep
      ELSE IF ctl = 1 /\ fn = 9 THEN
             \* the settings block: a window on the register file, not subject to refusals
             /\ ServeWith([k |-> "read", first |-> SettingsBase, n |-> (lg.aa55.slen + 1) \div 2, ws |-> <<>>], {}, {})
             /\ Judge(rs, IF last'.kind = "data" THEN Wr!Aa55Answer(rt, Wr!Sub(Bytes(last'.out), 1, lg.aa55.slen)) ELSE <<0>>)
             /\ UNCHANGED <<hist, aa>>
      ELSE IF ctl = 1 /\ fn = 26 /\ Len(pl) = 3 THEN
             /\ ServeWith([k |-> "read", first |-> Wr!BE16(pl[1], pl[2]), n |-> pl[3], ws |-> <<>>], {}, silent)
             /\ Judge(rs, IF last'.kind = "data" THEN Wr!Aa55Answer(rt, Bytes(last'.out))
                          ELSE IF last'.kind = "silent" THEN <<>> ELSE <<0>>)
             /\ UNCHANGED <<hist, aa>>
      ELSE IF ctl = 2 /\ fn = 57 /\ Len(pl) >= 3 THEN
             LET reg == Wr!BE16(pl[1], pl[2]) nb == pl[3] data == Wr!Sub(pl, 4, Len(pl))
                 ws == IF Len(pl) = 5 /\ nb = 1 THEN <<Wr!BE16(data[1], data[2])>>
                       ELSE Words(Wr!Sub(data, 1, IF nb < Len(data) THEN nb ELSE Len(data)))
             IN IF ws = <<>> THEN Judge(rs, Ack(ctl, fn)) /\ Keep
                ELSE /\ ServeWith([k |-> "wmulti", first |-> reg, n |-> Len(ws), ws |-> ws], {}, {})
                     /\ Judge(rs, IF last'.kind = "echo" THEN Ack(ctl, fn) ELSE <<0>>)
                     /\ UNCHANGED <<hist, aa>>
      ELSE IF ctl = 3 /\ fn = 89 /\ Len(pl) = 1 THEN       \* 0x0359 work mode
             /\ ServeWith([k |-> "write", first |-> SettingsBase + 33, n |-> 1, ws |-> <<pl[1]>>], {}, {})
             /\ Judge(rs, Ack(ctl, fn)) /\ UNCHANGED <<hist, aa>>
      ELSE IF ctl = 3 /\ fn = 53 /\ Len(pl) = 2 THEN       \* 0x0335 export limit
             /\ ServeWith([k |-> "write", first |-> SettingsBase + 26, n |-> 1, ws |-> <<Wr!BE16(pl[1], pl[2])>>], {}, {})
             /\ Judge(rs, Ack(ctl, fn)) /\ UNCHANGED <<hist, aa>>
      ELSE IF ctl = 3 THEN Judge(rs, Ack(ctl, fn)) /\ Keep
      ELSE Judge(rs, <<>>) /\ Keep

(***************************************************************************)
(* One recorded operation per step                                         *)
(***************************************************************************)
TraceNext ==
    LET lg == Logs[lid] IN
    /\ pos <= Len(lg.ops)
    /\ pos' = pos + 1 /\ UNCHANGED lid
    /\ LET op == lg.ops[pos] IN
         CASE op.k = "req"  -> IF IsAa55(Fr(op.rq)) THEN Aa55Step(lg, Fr(op.rq), Fr(op.rs)) ELSE ModbusStep(lg, Fr(op.rq), Fr(op.rs))
           [] op.k = "poke" -> IF op.a \in DOMAIN regs
                               THEN PokeCore(op.a, op.v) /\ UNCHANGED <<hist, aa, bad>>
                               ELSE Mismatch("SIM.Domain") /\ Keep
           [] op.k = "cfg"  -> /\ Reconfigure({a \in DOMAIN regs : InRanges(op.refused, a)}, {a \in DOMAIN regs : InRanges(op.silent, a)})
                               /\ UNCHANGED <<aa, bad>>
           [] op.k = "aa55" -> /\ aa' = [aa EXCEPT !.info = IF op.info = 0 THEN @ ELSE op.info,
                                                   !.runtime = IF op.runtime = 0 THEN @ ELSE op.runtime]
                               /\ UNCHANGED <<vars, bad>>

Done == /\ pos = Len(Logs[lid].ops) + 1
        /\ PrintT("VERDICT|" \o ToString(lid) \o "|" \o ToString(bad))
        /\ pos' = pos + 1
        /\ UNCHANGED <<vars, lid, bad, aa>>

TraceSpec == TraceInit /\ [][TraceNext \/ Done]_tvars
=============================================================================
