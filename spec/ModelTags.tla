----------------------------- MODULE ModelTags -----------------------------
(***************************************************************************)
(* The model tags a serial number may carry and the capability classes     *)
(* they stand for (goodwe/model.py, transcribed: which tag means which     *)
(* hardware is a fact about the devices, not something an implementation   *)
(* may re-decide).  Inverter.tla is parameterised by the four predicates   *)
(* and the rated-power class; Pred(tag) supplies them for a known tag.     *)
(***************************************************************************)
Platform745 == {"ESN", "EBN", "EMN", "SPN", "ERN", "ESC", "HLB", "HMB", "HBB", "EOA",
                "ETT", "HTA", "HUB", "AEB", "SPB", "CUB", "EUB", "HEB", "ERB", "BTT", "ETF", "ARB", "URB", "EBR"}
Platform753 == {"AES", "HHI", "ABP", "EHB", "HSB", "HUA", "CUA"}
SinglePhase == {"DSN", "DST", "NSU", "SSN", "SST", "SSX", "SSY", "MSU", "MST", "PSB", "PSC", "MSC",
                "EHU", "EHR", "HSB", "ESN", "EMN", "ERN", "EBN", "HLB", "HMB", "HBB", "SPN"}
Mppt3 == {"MSU", "MST", "PSC", "MSC", "25KET", "29K9ET"}
Mppt4 == {"HSB"}
Bat2 == {"25KET", "29K9ET"}
EtTags == {"ETU", "ETL", "ETR", "BHN", "EHU", "BHU", "EHR", "BTU"} \cup Platform745 \cup Platform753
          \cup {"ETC", "BTC", "BTN"} \cup Bat2
DtTags == {"DTU", "DTS", "MSU", "MST", "MSC", "DSN", "DTN", "DST", "NSU", "SSN", "SST", "SSX", "SSY", "PSB", "PSC"}
EsTags == {"ESU", "EMU", "ESA", "BPS", "BPU", "EMJ", "IJL"}

Known(tag) == tag \in EtTags \cup DtTags \cup EsTags
Pred(tag) == [four |-> tag \in Mppt4, single |-> tag \in SinglePhase, bat2 |-> tag \in Bat2, p745 |-> tag \in Platform745]
=============================================================================
