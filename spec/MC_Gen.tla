------------------------------- MODULE MC_Gen -------------------------------
EXTENDS GenProto
F(k, d, d2, x) == [k |-> k, d |-> d, d2 |-> d2, x |-> x]
FaultsFull ==
    { F("drop", 0, 0, 0),
      F("ans", 1, 0, 0), F("ans", 3, 0, 0), F("ans", 4, 0, 0), F("ans", 5, 0, 0),
      F("garb", 1, 0, 0), F("dupg", 1, 0, 0),
      F("exc", 1, 0, 2),
      F("lone", 1, 0, 0),
      F("frag", 1, 2, "tail"), F("frag", 1, 1, "tail"), F("frag", 2, 6, "tail"),
      F("frag", 1, 2, "tailx"), F("frag", 1, 2, "tailc"),
      F("dup", 1, 0, 0), F("ansg", 1, 0, 0), F("gans", 1, 0, 0),
      F("pclose", 2, 0, 0),
      F("err", 2, 0, 101), F("err", 2, 0, 111) }
FaultsAssume ==
    { F("drop", 0, 0, 0), F("ans", 1, 0, 0), F("ans", 3, 0, 0), F("frag", 1, 2, "tail") }
FxAll == {"A", "B", "C", "D", "E", "F"}
=============================================================================
