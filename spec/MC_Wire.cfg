SPECIFICATION TxSpec
CHECK_DEADLOCK FALSE
INVARIANT TxRange
PROPERTY TxTransmittedNonZero
PROPERTY TxChanges
