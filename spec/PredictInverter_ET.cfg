SPECIFICATION PSpec
CHECK_DEADLOCK FALSE
CONSTANTS
  Family = "ET"
  MaxCalls = 100
  Fx = {}
