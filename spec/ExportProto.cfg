SPECIFICATION Spec
CHECK_DEADLOCK FALSE
CONSTANTS
  Kind = "udp"
  KeepAlive = TRUE
  Retries = 0
  T = 4
  CT = 20
  NCallers = 1
  NReq = 1
  Faults <- FaultsAssume
  ConnOuts = {"ok"}
  MaxConnFail = 0
  Offsets = {0}
  Gaps = {0}
  Strict = TRUE
  Horizon = 0
  Fx <- FxAll
  Assume = FALSE
  CancelAts = {}
