----------------------------- MODULE Registers -----------------------------
(***************************************************************************)
(* The inverter as the library sees it from the other end of the wire: a   *)
(* file of 16-bit holding registers with the Modbus read (3), write single *)
(* (6) and write multiple (16) operations, address ranges that the device  *)
(* refuses (exception 2, ILLEGAL DATA ADDRESS) and ranges it never answers.*)
(*                                                                         *)
(* This is the specification of what harness/siminverter.py has to do (the *)
(* simulator is NOT trusted: TraceRegisters.tla validates every recorded   *)
(* request / response pair of a run against this module), and it is the    *)
(* environment assumption of C14-C20: "the inverter can read back what was *)
(* written", "every other register keeps its value".                       *)
(*                                                                         *)
(* The state is abstract (a function Addr -> Word); frames are dealt with  *)
(* in TraceRegisters.tla through Wire.tla.                                 *)
(***************************************************************************)
EXTENDS Integers, Sequences, FiniteSets

CONSTANTS Addr,        \* set of register addresses that exist in this instance
          Word,        \* set of register values
          MaxCount     \* longest read / write-multi of the bounded model

VARIABLES regs,        \* Addr -> Word
          refused,     \* set of addresses the device refuses
          silent,      \* set of addresses the device never answers for
          hist,        \* history variable: sequence of [a, v] register assignments that took effect, oldest first
          init,        \* history variable: the initial content
          last         \* the last operation and the device's reaction

vars == <<regs, refused, silent, hist, init, last>>

Range(first, count) == first..(first + count - 1)

\* operations are total: a range that leaves the address space is treated like a refused one
Exists(r, first, count) == Range(first, count) \subseteq DOMAIN r

Hit(S, first, count) == Range(first, count) \cap S # {}

ReadOut(r, first, count) == [i \in 1..count |-> r[first + i - 1]]

Assign(r, first, ws) == [a \in DOMAIN r |-> IF a \in Range(first, Len(ws)) THEN ws[a - first + 1] ELSE r[a]]

(***************************************************************************)
(* The reaction of the device to one operation, as a pure function of the  *)
(* state: [kind, regs (new content), out (values of a read answer)].       *)
(*   kind: "silent" no answer, "refused" exception 2, "data" read answer,  *)
(*         "echo" write acknowledged                                       *)
(***************************************************************************)
React(r, ref, sil, op) ==
    LET count == IF op.k = "read" THEN op.n ELSE Len(op.ws) IN
    IF Hit(sil, op.first, count) THEN [kind |-> "silent", regs |-> r, out |-> <<>>]
    ELSE IF Hit(ref, op.first, count) \/ ~Exists(r, op.first, count) THEN [kind |-> "refused", regs |-> r, out |-> <<>>]
    ELSE IF op.k = "read" THEN [kind |-> "data", regs |-> r, out |-> ReadOut(r, op.first, count)]
    ELSE [kind |-> "echo", regs |-> Assign(r, op.first, op.ws), out |-> <<>>]

Ops == [k : {"read"}, first : Addr, n : 1..MaxCount, ws : {<<>>}]
       \cup [k : {"write"}, first : Addr, n : {1}, ws : [1..1 -> Word]]
       \cup UNION {[k : {"wmulti"}, first : Addr, n : {c}, ws : [1..c -> Word]] : c \in 1..MaxCount}

Init == /\ regs \in [Addr -> Word]
        /\ refused \in SUBSET Addr
        /\ silent \in SUBSET Addr
        /\ hist = <<>>
        /\ init = regs
        /\ last = [op |-> [k |-> "none"], kind |-> "none", out |-> <<>>]

\* the part of an operation that concerns the content (ref / sil: the ranges that apply to this kind of request)
ServeWith(op, ref, sil) ==
    LET x == React(regs, ref, sil, op) IN
      /\ regs' = x.regs
      /\ last' = [op |-> op, kind |-> x.kind, out |-> x.out]
      /\ UNCHANGED <<refused, silent, init>>

Serve(op) ==
    /\ ServeWith(op, refused, silent)
    /\ hist' = IF last'.kind = "echo" THEN hist \o [i \in 1..Len(op.ws) |-> <<op.first + i - 1, op.ws[i]>>] ELSE hist

\* the harness (the "physical world": production, the user's app) changes a register behind the library's back
PokeCore(a, v) ==
    /\ regs' = [regs EXCEPT ![a] = v]
    /\ last' = [op |-> [k |-> "poke", first |-> a, n |-> 1, ws |-> <<v>>], kind |-> "poke", out |-> <<>>]
    /\ UNCHANGED <<refused, silent, init>>
Poke(a, v) ==
    /\ regs' = [regs EXCEPT ![a] = v]
    /\ hist' = Append(hist, <<a, v>>)
    /\ last' = [op |-> [k |-> "poke", first |-> a, n |-> 1, ws |-> <<v>>], kind |-> "poke", out |-> <<>>]
    /\ UNCHANGED <<refused, silent, init>>

\* the capability set of the device changes (a battery is connected, firmware answers another block)
Reconfigure(ref, sil) ==
    /\ refused' = ref /\ silent' = sil
    /\ last' = [op |-> [k |-> "cfg"], kind |-> "cfg", out |-> <<>>]
    /\ UNCHANGED <<regs, hist, init>>

Next == \/ \E op \in Ops : Serve(op)
        \/ \E a \in Addr, v \in Word : Poke(a, v)
        \* (one address at a time: every reconfiguration is a sequence of these)
        \/ \E a \in Addr : \/ Reconfigure((refused \cup {a}) \ (refused \cap {a}), silent)
                            \/ Reconfigure(refused, (silent \cup {a}) \ (silent \cap {a}))

Spec == Init /\ [][Next]_vars

(***************************************************************************)
(* Properties of the model (checked by TLC on small instances)             *)
(***************************************************************************)
TypeOK == regs \in [Addr -> Word] /\ refused \subseteq Addr /\ silent \subseteq Addr

\* independent characterisation of the content: the initial value unless assigned, else the latest assignment
LastAssigned(a) ==
    LET idx == {i \in 1..Len(hist) : hist[i][1] = a} IN
      IF idx = {} THEN init[a] ELSE hist[CHOOSE i \in idx : \A j \in idx : j <= i][2]
ContentIsHistory == \A a \in Addr : regs[a] = LastAssigned(a)

\* a read answer reports exactly the current content of exactly the registers asked for
ReadAnswersContent ==
    last.kind = "data" => /\ Len(last.out) = last.op.n
                          /\ \A i \in 1..last.op.n : last.out[i] = LastAssigned(last.op.first + i - 1)

\* "touches only its own registers": a step changes a register only if it is an acknowledged write / a poke of it
OnlyOwn == [][\A a \in Addr : regs'[a] # regs[a] =>
                  /\ last'.kind \in {"echo", "poke"}
                  /\ a \in Range(last'.op.first, Len(last'.op.ws))]_vars

\* refused / unanswered operations and reads leave the content alone
NoSideEffect == [][last'.kind \in {"silent", "refused", "data", "cfg"} => regs' = regs]_vars

\* what is written is what a following read of the same registers returns ("reads back as written")
ReadBack == [][(last.kind = "echo" /\ last'.kind = "data" /\ last'.op.first = last.op.first /\ last'.op.n = Len(last.op.ws))
                 => last'.out = last.op.ws]_vars

\* an operation is refused / unanswered only when it touches such an address (or leaves the address space)
ReactionJustified ==
    /\ last.kind = "silent" => last.op.k \in {"read", "write", "wmulti"}
    /\ last.kind \in {"data", "echo"} => Exists(regs, last.op.first, IF last.op.k = "read" THEN last.op.n ELSE Len(last.op.ws))
=============================================================================
