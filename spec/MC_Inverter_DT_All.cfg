SPECIFICATION Spec
CHECK_DEADLOCK FALSE
CONSTANTS
  Family = "DT"
  MaxCalls = 5
  Fx <- FxAll
INVARIANT KeysEqSensors
INVARIANT SecondCallSucceeds
INVARIANT MeterWindowCoversCut
INVARIANT ListedResolvable
INVARIANT RefusedDisappear
