SPECIFICATION Spec
CHECK_DEADLOCK FALSE
CONSTANTS
  Kind = "tcp"
  KeepAlive = FALSE
  Retries = 1
  T = 4
  CT = 20
  NCallers = 1
  NReq = 2
  Faults <- FaultsFull
  ConnOuts = {"ok", "refused", "hang"}
  MaxConnFail = 1
  Offsets = {0}
  Gaps = {0, 2}
  Strict = TRUE
  Horizon = 400
  Fx <- FxAll
  Assume = FALSE
  CancelAts = {}
INVARIANT NoViolation
INVARIANT NoHang
INVARIANT TimeBounded
INVARIANT OneTransport
INVARIANT LockSane
INVARIANT OnePending
INVARIANT RetryBounded
INVARIANT NoUnhandled
