#!/venv/bin/python
"""Writes the MC_Proto_*.cfg instances (kept in git; rerun after changing the grid)."""
import os
HERE = os.path.dirname(os.path.abspath(__file__))
INV = ["NoViolation", "NoHang", "TimeBounded", "OneTransport", "LockSane", "OnePending", "RetryBounded", "NoUnhandled"]

def mk(name, kind, ka, retries, ncallers, nreq, faults, connouts, maxcf, offsets, gaps, assume, fx="FxAll", strict="TRUE", cancel="{}"):
    with open(os.path.join(HERE, f"MC_Proto_{name}.cfg"), "w") as f:
        f.write("SPECIFICATION Spec\nCHECK_DEADLOCK FALSE\nCONSTANTS\n")
        f.write(f'  Kind = "{kind}"\n  KeepAlive = {ka}\n  Retries = {retries}\n  T = 4\n  CT = 20\n')
        f.write(f"  NCallers = {ncallers}\n  NReq = {nreq}\n  Faults <- {faults}\n  ConnOuts = {connouts}\n")
        f.write(f"  MaxConnFail = {maxcf}\n  Offsets = {offsets}\n  Gaps = {gaps}\n  Strict = {strict}\n  Horizon = 400\n")
        f.write(f"  Fx <- {fx}\n  Assume = {assume}\n  CancelAts = {cancel}\n")
        for i in INV:
            f.write(f"INVARIANT {i}\n")

UDPC = '{"ok", "unreach"}'
TCPC = '{"ok", "refused", "hang"}'
for kind, conn in (("udp", UDPC), ("tcp", TCPC)):
    for ka in ("TRUE", "FALSE"):
        k = "ka" if ka == "TRUE" else "nka"
        # one caller, two requests, full alphabet (C04 C05 C07 C08 C09 C10)
        for r in (0, 1, 2):
            mk(f"{kind}_{k}_r{r}", kind, ka, r, 1, 2, "FaultsFull", conn, 1, "{0}", "{0, 2}", "FALSE")
        # histories of three requests, reduced alphabet (C05 C10)
        mk(f"{kind}_{k}_h3", kind, ka, 1, 1, 3, "FaultsHist", conn, 1, "{0}", "{0}", "FALSE")
        # two and three concurrent callers under the peer assumption of C06
        mk(f"{kind}_{k}_c2", kind, ka, 1, 2, 2, "FaultsAssume", '{"ok"}', 0, "{0, 1, 4}", "{0}", "TRUE")
        mk(f"{kind}_{k}_c3", kind, ka, 1, 3, 1, "FaultsAssume", '{"ok"}', 0, "{0, 1, 4}", "{0}", "TRUE")
        # the code as found (reproduces the defects listed in DESIGN.md section 7)
        mk(f"{kind}_{k}_asfound", kind, ka, 1, 1, 2, "FaultsFull", conn, 1, "{0}", "{0, 2}", "FALSE", fx="FxNone")
        mk(f"{kind}_{k}_nofixF", kind, ka, 1, 1, 2, "FaultsFull", conn, 1, "{0}", "{0, 2}", "FALSE", fx="FxNoF")
        # the user cancels the task of a request in flight (beyond the listed properties; see Protocol!UCancel)
        mk(f"{kind}_{k}_uc", kind, ka, 1, 1, 2, "FaultsCancel", '{"ok"}' if kind == "udp" else '{"ok", "refused"}', 1, "{0}", "{0}", "FALSE",
           cancel="{2, 5, 6}")


# conformance instances (ConformProtocol.tla): one per (kind, keep-alive, retries); scripts come from the harness
for kind in ("udp", "tcp"):
    for ka in ("TRUE", "FALSE"):
        k = "ka" if ka == "TRUE" else "nka"
        for r in (0, 1, 2, 3):
            with open(os.path.join(HERE, f"Conform_{kind}_{k}_r{r}.cfg"), "w") as f:
                f.write("SPECIFICATION CSpec\nCHECK_DEADLOCK FALSE\nCONSTANTS\n")
                f.write(f'  Kind = "{kind}"\n  KeepAlive = {ka}\n  Retries = {r}\n  T = 4\n  CT = 40\n  NCallers = 1\n  NReq = 3\n')
                f.write('  Faults <- FaultsFull\n  ConnOuts = {"ok"}\n  MaxConnFail = 99\n  Offsets = {0}\n  Gaps = {0, 2}\n')
                f.write("  Strict = TRUE\n  Horizon = 4000\n  Fx <- FxAll\n  Assume = FALSE\n  CancelAts = {}\nINVARIANT CNoViolation\n")
        # user cancellation (one caller, two requests, retries = 1; the script carries the cancellation instants)
        with open(os.path.join(HERE, f"Conform_{kind}_{k}_uc.cfg"), "w") as f:
            f.write("SPECIFICATION CSpec\nCHECK_DEADLOCK FALSE\nCONSTANTS\n")
            f.write(f'  Kind = "{kind}"\n  KeepAlive = {ka}\n  Retries = 1\n  T = 4\n  CT = 40\n  NCallers = 1\n  NReq = 2\n')
            f.write('  Faults <- FaultsFull\n  ConnOuts = {"ok"}\n  MaxConnFail = 99\n  Offsets = {0}\n  Gaps = {0, 2}\n')
            f.write("  Strict = TRUE\n  Horizon = 4000\n  Fx <- FxAll\n  Assume = FALSE\n  CancelAts = {2, 5, 6}\nINVARIANT CNoViolation\n")
        # concurrent callers (scripts of the assumption alphabet, retries = 1)
        for nc, nreq in ((2, 1), (2, 2), (3, 1)):
            with open(os.path.join(HERE, f"Conform_{kind}_{k}_c{nc}x{nreq}.cfg"), "w") as f:
                f.write("SPECIFICATION CSpec\nCHECK_DEADLOCK FALSE\nCONSTANTS\n")
                f.write(f'  Kind = "{kind}"\n  KeepAlive = {ka}\n  Retries = 1\n  T = 4\n  CT = 40\n  NCallers = {nc}\n  NReq = {nreq}\n')
                f.write('  Faults <- FaultsFull\n  ConnOuts = {"ok"}\n  MaxConnFail = 99\n  Offsets = {0}\n  Gaps = {0, 2}\n')
                f.write("  Strict = TRUE\n  Horizon = 4000\n  Fx <- FxAll\n  Assume = TRUE\n  CancelAts = {}\nINVARIANT CNoViolation\n")


# simulation instances (GenProto.tla / MC_Gen.tla) and their conformance counterparts
GEN = {"deep1": (1, 3, 4, "FaultsFull", "FALSE", "{0}", "{0, 1, 2, 5}"),       # callers, requests, retries, alphabet, assume, offsets, gaps
       "conc": (3, 2, 2, "FaultsAssume", "TRUE", "{0, 1, 3, 4, 5}", "{0, 1, 2}")}
for name, (nc, nreq, r, al, assume, offs, gaps) in GEN.items():
    for kind in ("udp", "tcp"):
        conn = '{"ok", "unreach"}' if kind == "udp" else '{"ok", "refused", "hang"}'
        if assume == "TRUE":
            conn = '{"ok"}'
        for ka in ("TRUE", "FALSE"):
            k = "ka" if ka == "TRUE" else "nka"
            for mod, spec in (("Gen", "GSpec"), ("ConformG", "CSpec")):
                with open(os.path.join(HERE, f"{mod}_{kind}_{k}_{name}.cfg"), "w") as f:
                    f.write(f"SPECIFICATION {spec}\nCHECK_DEADLOCK FALSE\nCONSTANTS\n")
                    f.write(f'  Kind = "{kind}"\n  KeepAlive = {ka}\n  Retries = {r}\n  T = 4\n  CT = {20 if mod == "Gen" else 40}\n  NCallers = {nc}\n  NReq = {nreq}\n')
                    f.write(f'  Faults <- {al if mod == "Gen" else "FaultsFull"}\n  ConnOuts = {conn}\n  MaxConnFail = 2\n  Offsets = {offs}\n  Gaps = {gaps}\n')
                    f.write(f"  Strict = TRUE\n  Horizon = 4000\n  Fx <- FxAll\n  Assume = {assume}\n  CancelAts = {{}}\n")
                    f.write("INVARIANT GNoViolation\n" if mod == "Gen" else "INVARIANT CNoViolation\n")
