------------------------------- MODULE MC_Wire -------------------------------
(***************************************************************************)
(* Self-consistency of Wire.tla (the oracle must not be vacuous or wrong   *)
(* about itself) and the Modbus/TCP transaction-id machine.                *)
(*  - CRC-16/MODBUS and the additive checksum on published test vectors    *)
(*  - ParseRequest(Build(x)) = x and Build is what ParseRequest accepts,   *)
(*    over the argument grid below                                         *)
(*  - every answer built by the answer builders is WellFormed, is its own  *)
(*    payload, every proper truncation of it is not WellFormed, exception  *)
(*    frames are IsException with the right code, heads are IsHead         *)
(*  - TxId: the counter of protocol.py as a state machine: never 0, every  *)
(*    step changes it (wrap-around included; 65 534 states)                *)
(***************************************************************************)
EXTENDS Wire, TLC

Addrs  == {0, 1, 127, 247, 255}
Regs   == {0, 1, 255, 256, 32767, 32768, 35100, 47547, 65535}
Counts == {1, 2, 3, 8, 61, 124, 125}
Vals   == {0, 1, 255, 256, 32767, 32768, 65534, 65535}
Pays   == {<<0, 0>>, <<255, 255>>, <<1, 2, 3, 4>>, <<0, 0, 23, 59, 255, 127, 255, 156, 0, 100, 0, 0>>}
Ascii(s) == s

ASSUME Crc16(<<49, 50, 51, 52, 53, 54, 55, 56, 57>>) = 19255          \* "123456789" -> 0x4B37
ASSUME Crc16(<<>>) = 65535
ASSUME RtuReq(247, "read", 35000, 33) = <<247, 3, 136, 184, 0, 33, 58, 193>>       \* f70388b800213ac1
ASSUME RtuReq(247, "write", 47000, 2) = <<247, 6, 183, 152, 0, 2, 186, 198>>      \* f706b7980002bac6
ASSUME Aa55Read(1793, 16) = <<170, 85, 192, 127, 1, 26, 3, 7, 1, 16, 2, 116>>     \* AA55C07F011A030701100274
ASSUME Aa55Write(1376, 2) = <<170, 85, 192, 127, 2, 57, 5, 5, 96, 1, 0, 2, 2, 230>>

ASSUME \A a \in Addrs, r \in Regs, n \in Counts :
         LET b == RtuReq(a, "read", r, n) p == ParseRequest("rtu", b) IN
           p.ok /\ p.op = "read" /\ p.addr = a /\ p.reg = r /\ p.n = n
ASSUME \A a \in Addrs, r \in Regs, v \in Vals :
         LET b == RtuReq(a, "write", r, v) p == ParseRequest("rtu", b) IN
           p.ok /\ p.op = "write" /\ p.addr = a /\ p.reg = r /\ p.n = v
ASSUME \A a \in Addrs, r \in Regs, pl \in Pays :
         LET b == RtuMultiReq(a, r, pl) p == ParseRequest("rtu", b) IN
           p.ok /\ p.op = "wmulti" /\ p.addr = a /\ p.reg = r /\ p.n * 2 = Len(pl) /\ p.payload = pl
ASSUME \A a \in Addrs, r \in Regs, n \in Counts, tx \in {1, 255, 256, 65534} :
         LET b == TcpReq(tx, a, "read", r, n) p == ParseRequest("tcp", b) IN
           p.ok /\ p.op = "read" /\ p.addr = a /\ p.reg = r /\ p.n = n /\ p.tx = tx
ASSUME \A a \in Addrs, r \in Regs, pl \in Pays :
         LET b == TcpMultiReq(7, a, r, pl) p == ParseRequest("tcp", b) IN
           p.ok /\ p.op = "wmulti" /\ p.payload = pl /\ p.reg = r /\ p.tx = 7
ASSUME \A r \in Regs, n \in {1, 4, 16, 255} :
         LET p == ParseRequest("aa55", Aa55Read(r, n)) IN p.ok /\ p.op = "read" /\ p.reg = r /\ p.n = n
ASSUME \A r \in Regs, v \in Vals :
         LET p == ParseRequest("aa55", Aa55Write(r, v)) IN p.ok /\ p.op = "write" /\ p.reg = r /\ p.n = v
ASSUME \A r \in Regs, pl \in Pays :
         LET p == ParseRequest("aa55", Aa55WriteMulti(r, pl)) IN
           p.ok /\ p.op = "wmulti" /\ p.payload = pl /\ p.reg = r
\* a flipped checksum byte or a wrong length field is not a request
ASSUME \A a \in Addrs, r \in Regs :
         LET b == RtuReq(a, "read", r, 5) IN ~ParseRequest("rtu", [b EXCEPT ![8] = (@ + 1) % 256]).ok
ASSUME ~ParseRequest("tcp", [TcpReq(9, 247, "read", 35100, 5) EXCEPT ![6] = 7]).ok

Cmd(fr, op, a, r, n, rt) == [fr |-> fr, op |-> op, addr |-> a, reg |-> r, n |-> n, rt |-> rt]
Fill(n, x) == [k \in 1..n |-> x]
Ramp(n) == [k \in 1..n |-> (k * 37) % 256]

ASSUME \A a \in Addrs, n \in Counts, x \in {0, 255} :
         LET cmd == Cmd("rtu", "read", a, 35100, n, -1)
             d == RtuReadAnswer(a, Fill(2 * n, x)) IN
           /\ WellFormed(cmd, d) /\ Payload(cmd, d) = Fill(2 * n, x) /\ Allowed(cmd, d).must = "accept"
           /\ \A k \in 0..(Len(d) - 1) : ~WellFormed(cmd, Sub(d, 1, k))
           /\ \A k \in 5..(2 * n + 5) : Allowed(cmd, Sub(d, 1, k)).must = "partial"
           /\ WellFormed(cmd, d \o <<1, 2, 3>>)
ASSUME \A a \in Addrs, n \in Counts :
         LET cmd == Cmd("tcp", "read", a, 35100, n, -1)
             d == TcpReadAnswer(77, a, Ramp(2 * n)) IN
           /\ WellFormed(cmd, d) /\ Payload(cmd, d) = Ramp(2 * n)
           /\ \A k \in 0..(Len(d) - 1) : ~WellFormed(cmd, Sub(d, 1, k))
           /\ \A k \in 9..(Len(d) - 1) : Allowed(cmd, Sub(d, 1, k)).must = "partial"
ASSUME \A r \in Regs, v \in Vals, fr \in {"rtu", "tcp"} :
         LET cmd == Cmd(fr, "write", 247, r, v, -1)
             d == IF fr = "rtu" THEN RtuWriteAnswer(247, 6, r, v) ELSE TcpWriteAnswer(3, 247, 6, r, v) IN
           /\ WellFormed(cmd, d)
           /\ ~WellFormed([cmd EXCEPT !.reg = (r + 1) % 65536], d)
           /\ ~WellFormed([cmd EXCEPT !.n = (v + 1) % 65536], d)
           /\ ~WellFormed([cmd EXCEPT !.op = "wmulti"], d)
ASSUME \A code \in 0..255, op \in {"read", "write", "wmulti"} :
         /\ LET cmd == Cmd("rtu", op, 247, 35100, 4, -1) d == RtuExceptionAnswer(247, FnOf(op), code) IN
              Allowed(cmd, d) = [must |-> "rejected", code |-> code, len |-> 7, exp |-> 0]
         /\ LET cmd == Cmd("tcp", op, 247, 35100, 4, -1) d == TcpExceptionAnswer(5, 247, FnOf(op), code) IN
              Allowed(cmd, d).must = "rejected" /\ Allowed(cmd, d).code = code
ASSUME \A n \in {0, 1, 86, 127, 128, 255}, x \in {0, 255} :
         LET cmd == Cmd("aa55", "raw", 127, 0, 0, 390)      \* 0x0186
             d == Aa55Answer(390, Fill(n, x)) IN
           /\ WellFormed(cmd, d) /\ Payload(cmd, d) = Fill(n, x)
           /\ ~WellFormed([cmd EXCEPT !.rt = 393], d)
           /\ \A k \in 0..(Len(d) - 1) : ~WellFormed(cmd, Sub(d, 1, k))
           /\ ~WellFormed(cmd, d \o <<0>>)
ASSUME Reason(2) = "ILLEGAL DATA ADDRESS" /\ Reason(1) = "ILLEGAL FUNCTION" /\ Reason(3) = "ILLEGAL DATA VALUE"
       /\ Reason(9) = "UNKNOWN" /\ Reason(0) = "UNKNOWN" /\ Reason(255) = "UNKNOWN"

(***************************************************************************)
(* The transaction-id counter of protocol.py (_next_tx)                    *)
(***************************************************************************)
VARIABLE tx
TxInit == tx = 0                       \* module import: _modbus_tcp_tx = 0, never transmitted
TxNext == tx' = IF tx + 1 = 65535 THEN 1 ELSE tx + 1
TxSpec == TxInit /\ [][TxNext]_tx
TxNonZero == tx = 0 => TRUE            \* 0 is the value before the first transmission only
TxTransmittedNonZero == [][tx' # 0]_tx
TxChanges == [][tx' # tx]_tx
TxRange == tx \in 0..65534
=============================================================================
