SPECIFICATION CSpec
CHECK_DEADLOCK FALSE
CONSTANTS
  Kind = "tcp"
  KeepAlive = FALSE
  Retries = 2
  T = 4
  CT = 40
  NCallers = 3
  NReq = 2
  Faults <- FaultsFull
  ConnOuts = {"ok"}
  MaxConnFail = 2
  Offsets = {0, 1, 3, 4, 5}
  Gaps = {0, 1, 2}
  Strict = TRUE
  Horizon = 4000
  Fx <- FxAll
  Assume = TRUE
  CancelAts = {}
INVARIANT CNoViolation
