-------------------------- MODULE PredictDiscover --------------------------
(* Spec -> code: for every environment executed on the real discover() the  *)
(* model Discover.tla predicts the sequence of phases and the result.       *)
EXTENDS Discover, Json, IOUtils, TLC

Cfgs == JsonDeserialize(IOEnv.VERIF_CFGS)
VARIABLES pid
pvars == <<vars, pid>>

PInit == /\ pid \in 1..Len(Cfgs)
         /\ env = [tag |-> Cfgs[pid].tag, once |-> Cfgs[pid].once,
                   info |-> [f \in {"ET", "DT"} |-> Cfgs[pid].info[f]], rt |-> [f \in Fams |-> Cfgs[pid].rt[f]]]
         /\ pc = "ident" /\ k = 1 /\ phases = <<>> /\ result = "none" /\ identUsed = FALSE
PNext == /\ Next
         /\ UNCHANGED pid
         /\ (pc' = "done" => PrintT("DISC|" \o ToString(pid) \o "|" \o ToString(phases') \o "|" \o result'))
PSpec == PInit /\ [][PNext]_pvars
=============================================================================
