------------------------------ MODULE GenProto ------------------------------
(***************************************************************************)
(* Spec -> code beyond the exhaustive bound: TLC's simulation mode walks    *)
(* random behaviours of Protocol.tla (deeper constants: more retries, more  *)
(* callers and requests, all offsets and gaps); the environment picks of    *)
(* each behaviour are recorded in the history variable `picks` and printed  *)
(* when the behaviour ends.  The harness turns every pick record into a     *)
(* scenario, executes it on the real classes, judges it with the monitor    *)
(* and validates it against the model again (ConformProtocol).             *)
(***************************************************************************)
EXTENDS Protocol, Json

VARIABLE picks
gvars == <<vars, picks>>

OffsetOf(c) == (CHOOSE h \in s.timers : h.k = "sleep" /\ h.c = c).at

GInit == /\ Init
         /\ picks = [rf |-> [r \in 1..(NCallers * NReq) |-> <<>>], conn |-> <<>>,
                     gaps |-> [c \in Callers |-> <<>>], off |-> [c \in Callers |-> OffsetOf(c)]]

GRunOne ==
    /\ batch > 0
    /\ \E f \in Faults, o \in ConnOuts, g \in Gaps :
         LET cb == Head(ready)
             X == Callback(X0(s), cb, f, o, g, K0)
             c == IF cb.k = "wake" THEN cb.c ELSE 1
         IN /\ X.uf \/ f = F0
            /\ X.uo \/ o = O0
            /\ X.ug \/ g = G0
            /\ (X.uo /\ o # "ok") => s.cfails < MaxConnFail
            /\ s' = X.s
            /\ ready' = Tail(ready) \o X.q
            /\ net' = net \cup X.net
            /\ LET y == Feed(mon, viol, X.ev) IN mon' = y.m /\ viol' = y.v
            /\ picks' = [picks EXCEPT
                           !.rf = IF X.uf THEN [@ EXCEPT ![Req(c, X.s.idx[c])] = Append(@, f)] ELSE @,
                           !.conn = IF X.uo THEN Append(@, o) ELSE @,
                           !.gaps = IF X.ug THEN [@ EXCEPT ![c] = Append(@, g)] ELSE @]
    /\ batch' = batch - 1
    /\ UNCHANGED now

GNext == GRunOne
         \/ (Iterate /\ UNCHANGED picks)
         \/ (Finished /\ UNCHANGED picks /\ PrintT("PICKS|" \o ToJson(picks)))
GSpec == GInit /\ [][GNext]_gvars
GNoViolation == viol \subseteq Mon!ObsClauses
=============================================================================
