SPECIFICATION Spec
CHECK_DEADLOCK FALSE
CONSTANTS
  Kind = "tcp"
  KeepAlive = TRUE
  Retries = 1
  T = 4
  CT = 20
  NCallers = 1
  NReq = 3
  Faults <- FaultsHist
  ConnOuts = {"ok", "refused", "hang"}
  MaxConnFail = 1
  Offsets = {0}
  Gaps = {0}
  Strict = TRUE
  Horizon = 400
  Fx <- FxAll
  Assume = FALSE
  CancelAts = {}
INVARIANT NoViolation
INVARIANT NoHang
INVARIANT TimeBounded
INVARIANT OneTransport
INVARIANT LockSane
INVARIANT OnePending
INVARIANT RetryBounded
INVARIANT NoUnhandled
