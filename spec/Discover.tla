------------------------------ MODULE Discover ------------------------------
(***************************************************************************)
(* goodwe.discover() / goodwe.connect(do_discover) as a state machine      *)
(* (goodwe/__init__.py).  On UDP port 8899 the identification probe        *)
(* (AA55 0102) comes first; a serial number carrying a known model tag     *)
(* selects the family, whose read_device_info() must then succeed; in every *)
(* other case - no answer, unknown tag, device info failing - the families  *)
(* are probed in the order ET, DT, ES, each with read_device_info() and     *)
(* read_runtime_data(); the first family for which both succeed is the      *)
(* result, otherwise InverterError.                                         *)
(*                                                                         *)
(* Grain: one PHASE per step (the identification probe, F.info, F.rt), a   *)
(* phase being the first request of that call: the environment decides      *)
(* whether it is answered.  (What a phase transmits in detail - retries,    *)
(* timeouts - is Protocol.tla's business; which registers - Inverter.tla's.)*)
(*                                                                         *)
(* Environment of one behaviour (constant over the behaviour):             *)
(*   tag        what the identification probe reveals:                     *)
(*              "silent" | "ET" | "ES" | "DT" | "other"                    *)
(*   once       the device answers the identification command only once     *)
(*              (ES.info is the same command on the wire)                  *)
(*   info[F], rt[F]   whether F's device-info / runtime block is answered  *)
(***************************************************************************)
EXTENDS Integers, Sequences, FiniteSets

Fams == {"ET", "DT", "ES"}
Order == <<"ET", "DT", "ES">>

VARIABLES env, pc, k, phases, result, identUsed
vars == <<env, pc, k, phases, result, identUsed>>

Envs == [tag : {"silent", "ET", "ES", "DT", "other"}, once : BOOLEAN,
         info : [{"ET", "DT"} -> BOOLEAN], rt : [Fams -> BOOLEAN]]

\* ES.read_device_info is the identification command again: answered iff the device answers that command (now)
InfoOk(e, f, used) == IF f = "ES" THEN e.tag # "silent" /\ ~(e.once /\ used) ELSE e.info[f]

Init == /\ env \in Envs
        /\ pc = "ident" /\ k = 1 /\ phases = <<>> /\ result = "none" /\ identUsed = FALSE

Ident ==
    /\ pc = "ident"
    /\ phases' = Append(phases, "ident")
    /\ identUsed' = (env.tag # "silent")
    /\ IF env.tag \in Fams THEN pc' = "tagged" ELSE pc' = "probe"
    /\ UNCHANGED <<env, k, result>>

\* the family named by the serial number: its read_device_info() decides; a failure falls through to the probing loop
Tagged ==
    /\ pc = "tagged"
    /\ phases' = Append(phases, env.tag \o ".info")
    /\ IF InfoOk(env, env.tag, identUsed)
       THEN pc' = "done" /\ result' = env.tag
       ELSE pc' = "probe" /\ UNCHANGED result
    /\ identUsed' = (identUsed \/ env.tag = "ES")
    /\ UNCHANGED <<env, k>>

Probe ==
    /\ pc = "probe"
    /\ k <= 3
    /\ LET f == Order[k]
           iok == InfoOk(env, f, identUsed)
           rok == env.rt[f] IN
         /\ phases' = IF iok THEN phases \o <<f \o ".info", f \o ".rt">> ELSE Append(phases, f \o ".info")
         /\ identUsed' = (identUsed \/ (f = "ES" /\ env.tag # "silent"))
         /\ IF iok /\ rok THEN pc' = "done" /\ result' = f /\ UNCHANGED k
            ELSE IF k = 3 THEN pc' = "done" /\ result' = "error" /\ UNCHANGED k
            ELSE k' = k + 1 /\ UNCHANGED <<pc, result>>
    /\ UNCHANGED env

Next == Ident \/ Tagged \/ Probe
Spec == Init /\ [][Next]_vars /\ WF_vars(Next)

(***************************************************************************)
(* Properties                                                              *)
(***************************************************************************)
TypeOK == pc \in {"ident", "tagged", "probe", "done"} /\ result \in Fams \cup {"none", "error"} /\ k \in 1..3

\* the probe sequence is bounded: identification, possibly the tagged family's device info, then at most two phases each
Bounded == Len(phases) <= 1 + 1 + 6

\* a family is returned only if its device info was answered (and, when found by probing, its runtime data too)
ResultJustified ==
    pc = "done" /\ result \in Fams =>
        \/ /\ result = env.tag /\ phases[Len(phases)] = result \o ".info"       \* via the serial number
        \/ /\ phases[Len(phases)] = result \o ".rt" /\ env.rt[result]            \* via probing

\* InverterError only when no family could be read
ErrorJustified ==
    pc = "done" /\ result = "error" => \A f \in {"ET", "DT"} : ~(env.info[f] /\ env.rt[f])

\* the order of the phases is fixed: identification first, then (tagged family), then ET, DT, ES
OrderOk ==
    /\ Len(phases) > 0 => phases[1] = "ident"
    /\ \A i, j \in 1..Len(phases) : (i < j /\ phases[i] = "DT.info" /\ i > 2) => phases[j] # "ET.info"

Terminates == <>(pc = "done")
=============================================================================
