SPECIFICATION Spec
INVARIANT TypeOK
INVARIANT Bounded
INVARIANT ResultJustified
INVARIANT ErrorJustified
INVARIANT OrderOk
PROPERTY Terminates
CHECK_DEADLOCK FALSE
